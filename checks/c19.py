"""C19 - copies and pickles of a bandit behave identically to the original."""
import copy
import json
import os
import pickle
import shutil
import subprocess
import sys
import tempfile

from hypothesis import strategies as st

from vlib import env, gen, ops, twin
from vlib.runner import Result, SubCheck, Violation

PROPERTY = "C19"
LEVEL = "exploration"
RULE = ("One plan in sixteen uses hyper-parameters at the falsy boundary of their range (l2_lambda=0, alpha=0, epsilon=0) with an arm added after the copy was taken. "
        "A generated history (possibly empty: copy before fit) over any policy pair with module-level binarizers; "
        "at its end the bandit is deep-copied and pickled/unpickled with protocols 2..5; a generated continuation "
        "(training, arm changes, warm start, queries) runs on every copy first and on the original afterwards: all "
        "outputs must be identical, and the original must also equal a bandit rebuilt from scratch by re-running "
        "the whole history (so using a copy cannot have affected it). Sub-check xproc: pickles are restored in a "
        "fresh interpreter which runs the continuation and returns its outputs. Non-trivial: the copy is taken "
        "after training and an arm change or warm start, and the continuation trains and then queries.")
ASSUMPTIONS = [
    "binarizers are instances of module-level classes (vlib/binarizers.py), as the property requires picklable ones",
    "TreeBandit with Thompson/epsilon>0 is kept at n_jobs=1 (scheduling dependence is C05's finding D7)",
]
NT_FLOOR = 0.1


@st.composite
def plan_st(draw, tier, max_prefix=6, max_cont=8):
    cfg = draw(gen.config_st(metrics=gen.SAFE_METRICS, arm_kinds=("int", "str", "float"), max_arms=4, with_binarizer=True, scale_ok=True,
                             defaults_ok=True, n_jobs_choices=(1, 1, 1, 1, 1, 2)))
    h = gen.History(draw, cfg, max_rows=8, series_queries=True, refit_new_d=True)
    mode = draw(st.sampled_from(["trained", "trained", "trained", "unfitted"]))
    if mode == "unfitted":
        for _ in range(draw(st.integers(0, 2))):
            gen.step_any(h, gen.ARM_KINDS + gen.WARM_KINDS, True)
    else:
        h.fit() if draw(st.integers(0, 3)) else h.partial_fit()
        if draw(st.integers(0, 3)):
            gen.step_any(h, gen.ARM_KINDS + gen.WARM_KINDS, True)
        for _ in range(draw(st.integers(0, max_prefix))):
            gen.step_any(h, gen.TRAIN_KINDS + gen.ARM_KINDS * 2 + gen.WARM_KINDS * 2 + ["query"], True)
    n_prefix = len(h.ops)
    if not h.fitted:
        h.fit() if draw(st.booleans()) else h.partial_fit()
    if draw(st.booleans()):
        h.partial_fit()
        h.query()
    for _ in range(draw(st.integers(1, max_cont))):
        gen.step_any(h, ["partial_fit", "partial_fit", "fit"] + gen.ARM_KINDS + gen.WARM_KINDS + gen.QUERY_KINDS * 3
                     + ["cold_arms", "policies"], True)
    return {"config": cfg, "prefix": h.ops[:n_prefix], "cont": h.ops[n_prefix:]}


@st.composite
def failed_fit_plan_st(draw, tier):
    """A bandit whose (first) training call failed part-way (checks/c07.py builds such histories: l2_lambda=0, a batch
    singular for a later arm) is copied: the copy must go on exactly like the original, exceptions included."""
    from checks import c07
    p = draw(c07.failed_call_plan_st(tier))
    cont = [[draw(st.sampled_from(["partial_fit", "fit"]))] + list(p["refit"][1:])] + list(p["cont"])
    return {"config": p["config"], "prefix": p["prior"], "cont": cont, "may_fail": True}


@st.composite
def boundary_params_plan_st(draw, tier):
    """Hyper-parameters at the boundary of their documented range, where the value is falsy (l2_lambda=0, alpha=0,
    epsilon=0): a copy must carry exactly these values, which shows once the copy builds something new from them - an
    arm added after the copy was taken.  The data keep every arm's design regular (each arm sees the unit vectors)."""
    arms = draw(st.sampled_from([[1, 2], [1, 2, 3], ["a", "b"]]))
    new = 9 if isinstance(arms[0], int) else "z"
    d = draw(st.integers(1, 2))
    lp = draw(st.sampled_from([["LinUCB", {"alpha": 1, "l2_lambda": 0}], ["LinUCB", {"alpha": 0.5, "l2_lambda": 0}],
                               ["LinGreedy", {"epsilon": 0, "l2_lambda": 0}], ["LinUCB", {"alpha": 0, "l2_lambda": 1}],
                               ["LinUCB", {"alpha": 1, "l2_lambda": 0, "scale": False}]]))
    units = [[1 if i == j else 0 for j in range(d)] for i in range(d)]

    def block(arm_list):
        dec, rew, cx = [], [], []
        for a in arm_list:
            rows = units + [[1] * d] + draw(gen.contexts_st(draw(st.integers(0, 2)), d, "int"))
            dec += [a] * len(rows)
            rew += draw(st.lists(st.integers(-5, 5), min_size=len(rows), max_size=len(rows)))
            cx += [list(r) for r in rows]
        return dec, rew, cx

    cfg = {"arms": arms, "lp": lp, "np": None, "seed": draw(st.integers(0, 2 ** 16)), "n_jobs": 1, "backend": None,
           "arm_kind": "int" if isinstance(arms[0], int) else "str"}
    q = draw(gen.contexts_st(draw(st.integers(1, 3)), d, "int"))
    prefix = [["fit"] + list(block(arms))]
    if draw(st.booleans()):
        prefix.append(["partial_fit"] + list(block(arms[:1])))
    cont = [["add_arm", new], ["predict_expectations", q], ["policies"], ["partial_fit"] + list(block([new])),
            ["predict_expectations", q], ["predict", q], ["cold_arms"]]
    return {"config": cfg, "prefix": prefix, "cont": cont, "may_fail": True}


@st.composite
def any_plan_st(draw, tier):
    k = draw(st.integers(0, 15))
    if k == 0:
        return draw(failed_fit_plan_st(tier))
    if k == 1:
        return draw(boundary_params_plan_st(tier))
    return draw(plan_st(tier))


def strategy(tier, ctx):
    return any_plan_st(tier)


def nontrivial(plan):
    kinds = [op[0] for op in plan["prefix"]]
    trained = any(k in ops.TRAIN_OPS for k in kinds)
    changed = any(k in ("add_arm", "remove_arm", "warm_start") for k in kinds)
    t = False
    tq = False
    for op in plan["cont"]:
        if op[0] in ops.TRAIN_OPS:
            t = True
        elif op[0].startswith("predict") and t:
            tq = True
    return trained and changed and tq


def evaluate(plan, ctx):
    cfg = plan["config"]
    b = ops.build(cfg)
    may_fail = plan.get("may_fail", False)
    if may_fail:
        ops.run_ops(b, plan["prefix"])
    else:
        twin.must_succeed(b, plan["prefix"], "prefix")
    copies = []
    try:
        copies.append(("deepcopy", copy.deepcopy(b)))
    except Exception as e:
        raise Violation("copy_failed", "deepcopy raised %r" % (e,))
    for proto in (2, 3, 4, 5):
        try:
            copies.append(("pickle%d" % proto, pickle.loads(pickle.dumps(b, protocol=proto))))
        except Exception as e:
            raise Violation("copy_failed", "pickle protocol %d raised %r" % (proto, e))
    outs = {}
    for name, c in copies:          # the copies are used first ...
        outs[name] = ops.run_ops(c, plan["cont"])
    outs["original"] = ops.run_ops(b, plan["cont"])    # ... the original afterwards
    for i, o in enumerate(outs["original"]):
        if ops.is_exc(o) and not may_fail:
            raise Violation("unexpected_exception", "continuation op %d %s raised %s" % (i, plan["cont"][i][0], ops.short(o)),
                            bucket="unexpected_exception:%s:%s" % (plan["cont"][i][0], o[1]))
    for name, _ in copies:
        d = ops.first_diff(outs["original"], outs[name])
        if d is not None:
            raise Violation("copy_differs", "%s: op %d %s: original %s, copy %s"
                            % (name, d, ops.short(plan["cont"][d], 120), ops.short(outs["original"][d]),
                               ops.short(outs[name][d])), bucket="copy_differs:" + ("deepcopy" if name == "deepcopy" else "pickle"))
    r = ops.build(cfg)
    if may_fail:
        ops.run_ops(r, plan["prefix"])
    else:
        twin.must_succeed(r, plan["prefix"], "rebuild prefix")
    outs_r = ops.run_ops(r, plan["cont"])
    d = ops.first_diff(outs["original"], outs_r)
    if d is not None:
        raise Violation("original_affected", "op %d %s: original (used after its copies) %s, rebuilt from scratch %s"
                        % (d, ops.short(plan["cont"][d], 120), ops.short(outs["original"][d]), ops.short(outs_r[d])))
    ev = twin.pair_events(cfg) + ["copy_before_fit" if not any(op[0] in ops.TRAIN_OPS for op in plan["prefix"])
                                  else "copy_after_training"]
    if may_fail:
        ev.append("copied_after_a_training_call_that_failed_part_way")
    return Result(nontrivial(plan) or may_fail, ev)


# ---- cross-process restore --------------------------------------------------------------------------------

XPROC_CHILD = r"""
import json, pickle, sys
sys.path.insert(0, sys.argv[2]); sys.path.insert(0, sys.argv[1])
from vlib import env; env.setup_paths()
from vlib import ops
d = sys.argv[3]
jobs = json.load(open(d + '/jobs.json'))
res = []
for j in jobs:
    with open(d + '/' + j['file'], 'rb') as f:
        b = pickle.load(f)
    res.append(ops.hexfloat(ops.run_ops(b, j['cont'])))
json.dump(res, open(d + '/out.json', 'w'))
"""


@st.composite
def xproc_plan_st(draw, tier):
    n = 8 if tier == "quick" else 10
    return {"plans": [draw(plan_st(tier, max_prefix=4, max_cont=5)) for _ in range(n)],
            "proto": draw(st.sampled_from([2, 3, 4, 5])), "hashseed": draw(st.sampled_from(["0", "1", "random"]))}


def xproc_strategy(tier, ctx):
    return xproc_plan_st(tier)


def evaluate_xproc(plan, ctx):
    d = tempfile.mkdtemp(prefix="verif_c19_")
    try:
        jobs = []
        want = []
        for i, p in enumerate(plan["plans"]):
            b = ops.build(p["config"])
            twin.must_succeed(b, p["prefix"], "prefix")
            fn = "b%d.pkl" % i
            with open(os.path.join(d, fn), "wb") as f:
                pickle.dump(b, f, protocol=plan["proto"])
            jobs.append({"file": fn, "cont": p["cont"]})
            want.append(ops.hexfloat(ops.run_ops(b, p["cont"])))
        with open(os.path.join(d, "jobs.json"), "w") as f:
            json.dump(jobs, f)
        e = env.child_env({"PYTHONHASHSEED": plan["hashseed"], "_VERIF_PINNED": "1"})
        r = subprocess.run([sys.executable, "-c", XPROC_CHILD, env.repo_dir(), env.VERIF_DIR, d],
                           capture_output=True, text=True, env=e)
        if r.returncode != 0 or not os.path.exists(os.path.join(d, "out.json")):
            raise Violation("restore_failed", "fresh interpreter could not restore / run: %s" % r.stderr[-1500:])
        got = json.load(open(os.path.join(d, "out.json")))
        want = json.loads(json.dumps(want))
        for i, (g, w) in enumerate(zip(got, want)):
            if g != w:
                k = next(j for j, (x, y) in enumerate(zip(g, w)) if x != y)
                raise Violation("xproc_differs", "bandit %d (%s/%s) op %d %s: original %s, restored in a fresh "
                                "interpreter (protocol %d, PYTHONHASHSEED=%s) %s"
                                % (i, plan["plans"][i]["config"]["lp"][0], plan["plans"][i]["config"]["np"], k,
                                   ops.short(plan["plans"][i]["cont"][k], 100), ops.short(w[k]), plan["proto"],
                                   plan["hashseed"], ops.short(g[k])))
    finally:
        shutil.rmtree(d, ignore_errors=True)
    nt = sum(1 for p in plan["plans"] if nontrivial(p)) >= 1
    return Result(nt, ["proto=%d" % plan["proto"], "hashseed=" + plan["hashseed"]])


def minimize_xproc(plan, fails):
    for p in plan["plans"]:
        small = dict(plan, plans=[p])
        if fails(small) is not None:
            return small
    return plan


SUBCHECKS = [
    SubCheck("inproc", strategy, evaluate, quick=2500, thorough=40000),
    SubCheck("xproc", xproc_strategy, evaluate_xproc, quick=32, thorough=320, quick_s=60,
             shrink=False, minimize=minimize_xproc),
]
KNOWN = {}

MANIFEST = {
    "level": "exploration",
    "technique": "property-based testing: generated histories (Hypothesis), differential twins (original vs deepcopy "
                 "vs pickle protocols 2-5 vs rebuilt-from-scratch; restore in a fresh interpreter)",
    "design_ref": "DESIGN.md section 4, C19",
    "text": "For generated histories and continuations over every policy pair, every copy (deepcopy, pickle 2..5, "
            "pickle restored in another process under PYTHONHASHSEED 0/1/random) must reproduce the original's "
            "outputs exactly, and the original, used after its copies, must equal a bandit rebuilt from scratch. "
            "Search, not proof.",
    "note": "Trusted: the plan interpreter (vlib/ops.py) on both sides; binarizers restricted to picklable "
            "module-level classes.",
}
