"""C10 - prediction is read-only."""
import copy

from hypothesis import strategies as st

from vlib import gen, ops, streams, twin
from vlib.runner import Result, SubCheck, Violation

PROPERTY = "C10"
LEVEL = "exploration"
RULE = ("One case in six is directed: queries, then a warm start that replaces a cold arm's state, then queries with no training in between (linear policies also on 12 / 16 / 33 features). "
        "A generated history brings a bandit (any policy pair, n_jobs 1 or 2/threading) to a trained state; a deep "
        "copy is taken; the original answers a burst of 1..4 predict / predict_expectations calls with 1..6 rows; "
        "all random-stream positions are copied original -> copy (path-wise); both then run the same generated "
        "continuation (partial_fit, fit, arm changes, warm_start, queries) and every output must be identical "
        "(exact float equality: both sides execute the same arithmetic); the continuation starts and ends with the "
        "'policies' query (repr of the learning_policy / neighborhood_policy properties: hyper-parameters are state). "
        "Distance metrics include NaN-capable ones (cosine, correlation, canberra, braycurtis, hamming). Non-trivial: the burst has a call with "
        ">= 2 rows and the continuation has a training op followed by a query.")
ASSUMPTIONS = [
    "state that no later public call can reveal (e.g. Thompson's cached last draw) is outside the property",
    "random streams are re-aligned after the burst, as the property allows ('apart from advancing its random "
    "streams')",
]
NT_FLOOR = 0.1


@st.composite
def plan_st(draw, tier):
    cfg = draw(gen.config_st(arm_kinds=("int", "str", "float", "mix"), max_arms=4, with_binarizer=True, scale_ok=True,
                             n_jobs_choices=(1, 1, 1, 1, 1, 2), defaults_ok=True, metrics=gen.SAFE_METRICS))
    if cfg["n_jobs"] != 1 and draw(st.booleans()):
        cfg["backend"] = draw(st.sampled_from([None, "loky"]))       # process-based workers (joblib's default)
    if draw(st.integers(0, 5)) == 0:
        cfg = draw(gen.config_st(nps=[None], lps=["EpsilonGreedy", "UCB1", "Softmax", "ThompsonSampling", "Popularity",
                                                  "LinGreedy", "LinUCB", "LinTS", "LinTS", "LinUCB"],
                                 arm_kinds=("int", "str", "float"), min_arms=2, max_arms=4, with_binarizer=True,
                                 scale_ok=True))
        # queries, then a warm start that replaces the state of a cold arm, then queries again with no training call in
        # between: whatever the queries left behind for the cold arm must not survive the replacement. Linear policies
        # also on wide contexts (a dozen features and more).
        d = draw(st.sampled_from([1, 2, 3, 12, 16, 33])) if cfg["lp"][0] in ops.LINEAR else None
        h = gen.History(draw, cfg, max_rows=8, query_rows=(1, 2, 3), d=d)
        dec, rew, cx = h.batch(omit=True, min_rows=2)
        h.ops.append(["fit", dec, rew, cx])
        h.fitted, h.rows = True, len(dec)
        if draw(st.booleans()) and h.can_add():
            h.add_arm()
        n_prefix = len(h.ops)
        for _ in range(draw(st.integers(1, 3))):
            h.query()
        n_burst = len(h.ops) - n_prefix
        h.warm_start()[2] = draw(st.sampled_from([1.0, 1.0, 0.75, 0.5]))
        h.query()
        h.query()
        h.cold_arms()
        h.partial_fit()
        h.query()
        return {"config": cfg, "prefix": h.ops[:n_prefix], "burst": h.ops[n_prefix:n_prefix + n_burst],
                "cont": h.ops[n_prefix + n_burst:]}
    h = gen.History(draw, cfg, max_rows=8, query_rows=(1, 2, 3, 6), series_queries=True, refit_new_d=True)
    h.fit() if draw(st.integers(0, 3)) else h.partial_fit()
    for _ in range(draw(st.integers(0, 5))):
        gen.step_any(h, gen.TRAIN_KINDS + gen.ARM_KINDS + gen.WARM_KINDS + ["predict"], True)
    n_prefix = len(h.ops)
    for _ in range(draw(st.integers(1, 4))):
        h.query()
    n_burst = len(h.ops) - n_prefix
    for _ in range(draw(st.integers(1, 8 if tier == "quick" else 14))):
        gen.step_any(h, ["partial_fit", "partial_fit", "fit"] + gen.ARM_KINDS + gen.WARM_KINDS + gen.QUERY_KINDS * 3
                     + ["cold_arms"], True)
    return {"config": cfg, "prefix": h.ops[:n_prefix], "burst": h.ops[n_prefix:n_prefix + n_burst],
            "cont": h.ops[n_prefix + n_burst:]}


def strategy(tier, ctx):
    return plan_st(tier)


def scribble(out):
    if isinstance(out, dict):
        for k in list(out):
            out[k] = 123.5
    elif isinstance(out, list):
        for x in out:
            scribble(x)
        del out[:]


def evaluate(plan, ctx):
    cfg = plan["config"]
    b = ops.build(cfg)
    twin.must_succeed(b, plan["prefix"], "prefix")
    t = copy.deepcopy(b)
    for i, op in enumerate(plan["burst"]):
        if op[0] in ("predict", "predict_expectations") and plan.get("scribble", True):
            # the answer belongs to the caller: whatever is done to the returned object (here: every value
            # overwritten, every list emptied) must not reach the bandit
            try:
                raw = getattr(b, op[0])(ops._ctx(op[1])) if op[1] is not None else getattr(b, op[0])()
            except Exception as e:
                raise Violation("unexpected_exception", "burst op %d %s raised %r" % (i, op[0], e),
                                bucket="unexpected_exception:%s:%s" % (op[0], type(e).__name__))
            scribble(raw)
        else:
            twin.must_succeed(b, [op], "burst")
    mode = streams.align(b, t)
    twin.run_both(b, t, [["policies"]] + plan["cont"] + [["policies"]], "queried_vs_unqueried", "queried bandit",
                  "unqueried copy")
    big = any(op[1] is not None and len(op[1]) >= 2 for op in plan["burst"])
    trained = False
    tq = False
    for op in plan["cont"]:
        if op[0] in ops.TRAIN_OPS:
            trained = True
        elif op[0].startswith("predict") and trained:
            tq = True
    ev = twin.pair_events(cfg) + ["align=" + mode, "n_jobs=%d" % cfg["n_jobs"], "backend=%s" % cfg.get("backend")]
    return Result(big and tq, ev)


SUBCHECKS = [SubCheck("burst", strategy, evaluate, quick=5000, thorough=40000)]
KNOWN = {}

MANIFEST = {
    "level": "exploration",
    "technique": "property-based testing: generated histories (Hypothesis), differential twin (queried bandit vs "
                 "never-queried deep copy after copying random-stream positions)",
    "design_ref": "DESIGN.md section 4, C10",
    "text": "For generated histories, query bursts and continuations over every policy pair, a queried bandit and a "
            "never-queried deep copy (streams re-aligned) must give identical outputs for the whole continuation. "
            "Search, not proof.",
    "note": "Trusted: copy.deepcopy of the bandit as the 'never queried' reference and vlib/streams.py for copying "
            "bit-generator states. Mutations no later public call can observe are invisible by definition.",
}
