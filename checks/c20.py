"""C20 - results are invariant to arm names and to the order of training rows; reward laws."""
import copy

from hypothesis import strategies as st

from vlib import binarizers, gen, ops, twin
from vlib.runner import Result, SubCheck, Violation

PROPERTY = "C20"
LEVEL = "exploration"
RULE = ("relabel: a generated history over any policy pair is replayed with the arms renamed by a one-to-one map onto "
        "labels of another type (int <-> str <-> float), order kept, same seed; all outputs must be equal after "
        "mapping keys and predicted arms (exact). permute: the rows inside every training call are permuted (context-"
        "free and linear policies, Radius / LSHNearest over them); with exactly-summable rewards every output "
        "including draws must be identical, with general floats deterministic policies within 1e-9 (1e-6 linear). "
        "laws: on histories in which every arm is observed, adding c to all rewards shifts EpsilonGreedy(0) / UCB1 "
        "expectations by c (1e-9) and leaves the Softmax probabilities unchanged (1e-9); multiplying all rewards by "
        "c != 0 multiplies LinGreedy(0) expectations by c (1e-6). Non-trivial: a relabelling that changes the label "
        "type; a permutation that swaps two rows of the same arm; any law case.")
ASSUMPTIONS = [
    "KNearest, Clusters and TreeBandit are outside the row-order clause (tie-breaking / k-means / tree construction "
    "may legitimately depend on row order), as the property's quantifier says",
    "Softmax invariance is observed on the probabilities the bandit holds (mab._imp.arm_to_expectation), because "
    "its public output is a random draw",
    "binarizer threshold tables are renamed together with the arms",
]
NT_FLOOR = 0.3

TARGETS = {
    "int": [11, 12, 13, 14, 15, 16, 17, 18, 19, 20, 21, 22, 23, 24, 25],
    "str": ["p", "q", "pq", "Q", "r s", "t", "u", "v", "w", "nan", "Infinity", "-inf", "NaN", "None", "True"],
    "float": [10.5, 11.25, 12.0, 13.75, 14.5, 15.125, 16.0, 17.5, 18.25, 19.5, 20.25, 21.0, 22.75, 23.5, 24.125],
    # distinct labels that are equal under any tolerance (price points, results of arithmetic, tiny values)
    "float_close": [2499.99, 2500.0, 2500.01, 0.3, 0.1 + 0.2, 1e-9, 2e-9, 1.0, 1.0000001, 7.0, 7.0000001, 1e9, 1e9 + 1,
                    5e-324, 0.7],
}


def map_binarizer(desc, mp, pairs=()):
    if desc is not None and desc.get("kind") == "strkey":
        # thresholds keyed by the label's text: the renamed bandit gets the same thresholds as a table keyed by its own
        # labels (the same function of (arm, reward) composed with the renaming)
        tab = {k: t for k, t in desc["table"]}
        return dict({k: v for k, v in desc.items() if k not in ("kind", "table")}, kind="threshold", op="ge",
                    table=[[y, tab.get(binarizers.key_of(x), desc.get("default", 0))] for x, y in pairs])
    if desc is None or desc.get("kind") != "threshold":
        return desc
    d = copy.deepcopy(desc)
    d["table"] = [[mp(a), t] for a, t in d["table"]]
    return d


def relabel_plan(cfg, op_list, mapping):
    table = [(a, b) for a, b in mapping]

    def mp(a):
        for x, y in table:
            if x == a and type(x) == type(a):
                return y
        for x, y in table:
            if x == a:
                return y
        raise KeyError(a)

    cfg2 = copy.deepcopy(cfg)
    cfg2["arms"] = [mp(a) for a in cfg["arms"]]
    if cfg2["lp"][0] == "ThompsonSampling" and cfg2["lp"][1].get("binarizer"):
        cfg2["lp"][1]["binarizer"] = map_binarizer(cfg2["lp"][1]["binarizer"], mp, table)
    out = []
    for op in op_list:
        if op[0] in ("fit", "partial_fit"):
            out.append([op[0], [mp(d) for d in op[1]], op[2], op[3]])
        elif op[0] == "add_arm":
            o = ["add_arm", mp(op[1])]
            if len(op) > 2 and op[2] is not None:
                o.append(map_binarizer(op[2], mp, table))
            out.append(o)
        elif op[0] == "remove_arm":
            out.append(["remove_arm", mp(op[1])])
        elif op[0] == "warm_start":
            out.append(["warm_start", [[mp(a), v] for a, v in op[1]], op[2]])
        else:
            out.append(op)
    return cfg2, out, mp


def map_output(o, mp):
    if o is None or ops.is_exc(o):
        return o
    if isinstance(o, list) and o and o[0] in ("S", "L"):
        def one(x):
            if isinstance(x, list):
                return [[mp(k), v] for k, v in x]
            return mp(x)
        return [o[0], one(o[1])] if o[0] == "S" else ["L", [one(x) for x in o[1]]]
    if isinstance(o, list):        # cold_arms
        return [mp(a) for a in o]
    return o


@st.composite
def relabel_plan_st(draw, tier):
    p = draw(gen.history_plan_st(tier, max_steps=10,
                                 config_kw=dict(arm_kinds=("int", "str", "float"), max_arms=4, with_binarizer=True,
                                                scale_ok=True, defaults_ok=True),
                                 hist_kw=dict(max_rows=8),
                                 kinds=gen.TRAIN_KINDS + gen.ARM_KINDS + gen.QUERY_KINDS * 3 + gen.WARM_KINDS
                                 + ["cold_arms"], binarizer_on_add=True))
    src = p["config"]["arm_kind"]
    dst = draw(st.sampled_from(["int", "str", "float"]))
    labels = list(p["config"]["arms"]) + [op[1] for op in p["ops"] if op[0] == "add_arm"]
    uniq = []
    for a in labels:
        if a not in uniq:
            uniq.append(a)
    close = dst == "float" and draw(st.integers(0, 2)) == 0
    targets = draw(gen.perm_st(TARGETS["float_close" if close else dst]))[:len(uniq)]
    p["mapping"] = [[a, t] for a, t in zip(uniq, targets)]
    p["dst_kind"] = dst
    return p


def relabel_strategy(tier, ctx):
    return relabel_plan_st(tier)


def evaluate_relabel(plan, ctx):
    cfg = plan["config"]
    cfg2, ops2, mp = relabel_plan(cfg, plan["ops"], plan["mapping"])
    a = ops.build(cfg)
    b = ops.build(cfg2)
    fitted = False
    for i, (op, op2) in enumerate(zip(plan["ops"], ops2)):
        oa = ops.apply_op(a, op)
        ob = ops.apply_op(b, op2)
        if ops.is_exc(oa) and not (op[0] in ("predict", "predict_expectations") and not fitted):
            raise Violation("unexpected_exception", "op %d %s raised %s" % (i, op[0], ops.short(oa)),
                            bucket="unexpected_exception:%s:%s" % (op[0], oa[1]))
        if op[0] in ops.TRAIN_OPS:
            fitted = True
        want = map_output(oa, mp)
        if not ops.outputs_equal(want, ob):
            raise Violation("relabel", "op %d %s: original %s -> renamed %s, but the renamed problem gave %s (mapping %r)"
                            % (i, ops.short(op, 100), ops.short(oa), ops.short(want), ops.short(ob), plan["mapping"]))
        if ob is not None and not ops.is_exc(ob) and op[0] in ("predict",):
            vals = ob[1] if ob[0] == "L" else [ob[1]]
            tgt = [t for _, t in plan["mapping"]]
            for v in vals:
                if not any(v == t and (type(v) == type(t) or plan["dst_kind"] == "float") for t in tgt):
                    raise Violation("relabel_type", "predicted %r (%s) is not one of the new labels %r"
                                    % (v, type(v).__name__, tgt))
    return Result(plan["dst_kind"] != cfg["arm_kind"], twin.pair_events(cfg) + ["%s->%s" % (cfg["arm_kind"], plan["dst_kind"])])


# ---- row permutations ------------------------------------------------------------------------------------------

PERM_NPS = [None, None, "Radius", "LSHNearest"]


@st.composite
def permute_plan_st(draw, tier):
    det = draw(st.integers(0, 3)) == 0
    cfg = draw(gen.config_st(many_arms_ok=True, nps=PERM_NPS, arm_kinds=("int", "str", "float", "mix"), max_arms=4, deterministic=det,
                             with_binarizer=True, scale_ok=True, defaults_ok=True))
    fam = None
    if det and cfg["lp"][0] not in ("ThompsonSampling", "Popularity") and twin.is_deterministic(cfg):
        fam = "F"
    h = gen.History(draw, cfg, reward_family=fam, exact_only=(fam is None), max_rows=10,
                    grid=draw(st.sampled_from(["int", "half", "mixed"])))
    h.fit() if draw(st.integers(0, 3)) else h.partial_fit()
    for _ in range(draw(st.integers(0, 6))):
        gen.step_any(h, ["partial_fit", "partial_fit", "fit", "add_arm", "remove_arm", "predict",
                         "predict_expectations"])
    h.predict_expectations()
    h.predict()
    perms = []
    for op in h.ops:
        if op[0] in ops.TRAIN_OPS:
            perms.append(list(draw(gen.perm_st(list(range(len(op[1])))))))
        else:
            perms.append(None)
    return {"config": cfg, "ops": h.ops, "perms": perms, "family": h.family}


def permute_strategy(tier, ctx):
    return permute_plan_st(tier)


def evaluate_permute(plan, ctx):
    cfg = plan["config"]
    a = ops.build(cfg)
    b = ops.build(cfg)
    linear = cfg["lp"][0] in ops.LINEAR
    # standardisation (scale=True) computes means and variances whose rounding depends on the row order; linear
    # outputs are continuous in the model, so a tolerance is sound there even for LinTS draws
    exact = plan["family"] not in ("F", "Fpos") and not (linear and cfg["lp"][1].get("scale"))
    tol = 0.0 if exact else (1e-6 if linear else 1e-9)
    scale = 1.0
    if not exact:
        scale = max([1.0] + [abs(float(r)) for op in plan["ops"] if op[0] in ops.TRAIN_OPS for r in op[2]])
    swapped_same_arm = False
    last_e = None
    for i, (op, perm) in enumerate(zip(plan["ops"], plan["perms"])):
        op2 = op
        if perm is not None:
            op2 = [op[0], [op[1][j] for j in perm], [op[2][j] for j in perm],
                   [op[3][j] for j in perm] if op[3] is not None else None]
            pos = {}
            for new, old in enumerate(perm):
                pos.setdefault(op[1][old], []).append(old)
            if any(v != sorted(v) for v in pos.values()):
                swapped_same_arm = True
        oa = ops.apply_op(a, op)
        ob = ops.apply_op(b, op2)
        if ops.is_exc(oa) or ops.is_exc(ob):
            raise Violation("unexpected_exception", "op %d %s raised %s / %s" % (i, op[0], ops.short(oa), ops.short(ob)),
                            bucket="unexpected_exception:%s" % op[0])
        if op[0] == "predict_expectations":
            last_e = oa
            if not ops.same(oa, ob, rtol=tol, atol=tol * scale):
                raise Violation("row_order_expectations", "op %d %s: original order %s, permuted rows %s"
                                % (i, ops.short(op, 80), ops.short(oa), ops.short(ob)))
        elif op[0] == "predict":
            if exact or (last_e is not None and twin.expectations_gap(last_e) > 100 * tol * scale and
                         ops.same(plan["ops"][i - 1][1:], op[1:])):
                if not ops.same(oa, ob):
                    raise Violation("row_order_predict", "op %d %s: original order %s, permuted rows %s"
                                    % (i, ops.short(op, 80), ops.short(oa), ops.short(ob)))
    return Result(swapped_same_arm, twin.pair_events(cfg) + ["exact" if exact else "tolerance"])


# ---- reward laws -----------------------------------------------------------------------------------------------

@st.composite
def laws_plan_st(draw, tier):
    which = draw(st.sampled_from(["EpsilonGreedy", "UCB1", "Softmax", "LinGreedy"]))
    kind, arms = draw(gen.arms_st(("int", "str"), 1, 4))
    if which == "LinGreedy":
        lp = ["LinGreedy", {"epsilon": 0, "l2_lambda": draw(st.sampled_from([1, 0.5, 10])), "scale": False}]
    else:
        lp = draw(gen.lp_st([which], arms, deterministic=True))
    cfg = {"arms": arms, "lp": lp, "np": None, "seed": draw(st.integers(0, 2 ** 20)), "n_jobs": 1, "backend": None,
           "arm_kind": kind}
    h = gen.History(draw, cfg, reward_family=draw(st.sampled_from(["E", "F"])), max_rows=10)
    dec, rew, cx = h.batch(n=draw(st.integers(len(arms), 10)), omit=False)
    for i, a in enumerate(arms):       # every arm observed
        dec[i] = a
    opl = [["fit", dec, rew, cx]]
    h.fitted = True
    for _ in range(draw(st.integers(0, 2))):
        h.partial_fit()
    opl += h.ops
    c = draw(st.sampled_from([1.0, -2.5, 100.0, 0.125, -1.0, 7.0])) if which != "LinGreedy" else \
        draw(st.sampled_from([2.0, -1.0, 0.5, 10.0, -3.0]))
    q = draw(gen.contexts_st(draw(st.integers(1, 3)), h.d, h.grid)) if which == "LinGreedy" else None
    return {"config": cfg, "ops": opl, "c": c, "query": q}


def laws_strategy(tier, ctx):
    return laws_plan_st(tier)


def evaluate_laws(plan, ctx):
    cfg = plan["config"]
    which = cfg["lp"][0]
    c = plan["c"]
    a = ops.build(cfg)
    b = ops.build(cfg)
    mx = 1.0
    for op in plan["ops"]:
        op2 = [op[0], op[1], [(r * c if which == "LinGreedy" else r + c) for r in op[2]], op[3]]
        mx = max([mx] + [abs(float(r)) for r in op[2]] + [abs(float(r)) for r in op2[2]])
        twin.must_succeed(a, [op])
        twin.must_succeed(b, [op2])
    if which == "Softmax":
        ea = {ops.py(k): float(v) for k, v in a._imp.arm_to_expectation.items()}
        eb = {ops.py(k): float(v) for k, v in b._imp.arm_to_expectation.items()}
        tau = cfg["lp"][1]["tau"]
        tol = 1e-9 * max(1.0, mx / tau)
        for k in ea:
            if abs(ea[k] - eb[k]) > tol:
                raise Violation("softmax_shift", "shift %r changed the soft-max probability of arm %r from %r to %r"
                                % (c, k, ea[k], eb[k]))
        return Result(True, ["law=softmax_shift"])
    oa = ops.apply_op(a, ["predict_expectations", plan["query"]])
    ob = ops.apply_op(b, ["predict_expectations", plan["query"]])
    if ops.is_exc(oa) or ops.is_exc(ob):
        raise Violation("unexpected_exception", "%s / %s" % (ops.short(oa), ops.short(ob)))
    ra = oa[1] if oa[0] == "L" else [oa[1]]
    rb = ob[1] if ob[0] == "L" else [ob[1]]
    for x, y in zip(ra, rb):
        for (k1, v1), (k2, v2) in zip(x, y):
            want = v1 * c if which == "LinGreedy" else v1 + c
            tol = (1e-6 if which == "LinGreedy" else 1e-9) * max(1.0, mx, abs(want))
            if k1 != k2 or abs(v2 - want) > tol:
                raise Violation("reward_law", "%s, c=%r: arm %r expectation %r became %r, law predicts %r"
                                % (which, c, k1, v1, v2, want), bucket="reward_law:" + which)
    return Result(True, ["law=%s" % which])


SUBCHECKS = [
    SubCheck("relabel", relabel_strategy, evaluate_relabel, quick=5000, thorough=50000),
    SubCheck("permute", permute_strategy, evaluate_permute, quick=5000, thorough=50000),
    SubCheck("laws", laws_strategy, evaluate_laws, quick=2500, thorough=20000),
]
KNOWN = {}

MANIFEST = {
    "level": "exploration",
    "technique": "property-based testing: metamorphic relations (relabelling bijections, row permutations, reward "
                 "shift/scale) over generated histories (Hypothesis)",
    "design_ref": "DESIGN.md section 4, C20",
    "text": "Generated histories are replayed on a transformed problem - arms renamed onto another label type, training "
            "rows permuted, rewards shifted or scaled - and the outputs must obey the stated relation (exact for "
            "relabelling and for permutations with exactly-summable rewards, stated tolerances otherwise). Search, "
            "not proof.",
    "note": "Trusted: the plan transformer in the check (renaming decisions, arms, warm-start keys and binarizer "
            "tables together).",
}
