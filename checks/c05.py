"""C05 - results do not depend on n_jobs, backend or scheduling."""
import copy
import itertools
import os
import pickle

import numpy as np
from hypothesis import strategies as st

from vlib import gen, ops, sched, twin
from vlib.runner import Result, SubCheck, Violation

PROPERTY = "C05"
LEVEL = "exploration"
RULE = ("partition (exhaustive): for every n in 1..64 (quick) / 1..400 (thorough), n_jobs in [-20,40] without 0 and "
        "cpu_count patched to {1,2,16,64}, _partition_contexts(n) must give contiguous non-empty chunks covering 0..n, "
        "min(effective jobs, n) of them. locality: for a generated trained neighbourhood bandit and n <= 7 query rows "
        "with a seed vector, _predict_contexts run per chunk for EVERY composition of n (n <= 5) or drawn compositions, "
        "on pickled copies per chunk (process-like) and on the same object in a drawn chunk order (thread-like), "
        "concatenated, must equal the whole-batch result; in half of the cases the chunk tasks are additionally run as "
        "threads on one shared object, switched at every Python-level call inside mabwiser according to a generated "
        "schedule (one thread at a time: deterministic). Metrics include seuclidean / mahalanobis, whose parameters are "
        "estimated from the rows they are given. schedule: joblib.Parallel inside mabwiser is replaced by an "
        "executor that runs the tasks of each call in a generated order (all 24 orders when <= 4 arms in the thorough "
        "tier), sharedmem tasks on shared state with their write sets recorded (a per-arm fit task may only write its "
        "own arm's entries, a per-hash insert task only [table][hash]), other tasks on shared state or pickled copies; "
        "public results must equal the n_jobs=1 run. joblib: the same scenario under real (n_jobs, backend) pairs must "
        "equal n_jobs=1. Non-trivial: >= 2 rows split into >= 2 chunks under a randomised learning policy, or a "
        "non-identity task order.")
ASSUMPTIONS = [
    "thread interleavings inside one task are not executed: the claim rests on whole-task permutations plus disjoint "
    "write sets (and CPython's atomic dict item assignment)",
    "real joblib backends sample whatever the OS schedules",
    "known finding D7 (TreeBandit with Thompson / epsilon>0 draws from the bandit's shared generator) is excluded by "
    "construction while its replay reproduces; the number of excluded configurations is reported (D8, LinTS under "
    "neighbourhood policies, was repaired and is generated again)",
]
NT_FLOOR = 0.2

D7 = "D7-treebandit-shared-generator"
D8 = "D8-lints-neighbourhood-generators"


def in_d7(cfg):
    return bool(cfg["np"]) and cfg["np"][0] == "TreeBandit" and (
        cfg["lp"][0] == "ThompsonSampling" or cfg["lp"][1].get("epsilon", 0) > 0)


def in_d8(cfg):
    return bool(cfg["np"]) and cfg["lp"][0] == "LinTS"


def draw_config(draw, ctx, nps, n_jobs_choices=(1,)):
    for _ in range(20):
        cfg = draw(gen.config_st(nps=nps, arm_kinds=("int", "str", "float", "mix"), max_arms=4, with_binarizer=True, scale_ok=True,
                                 defaults_ok=True, tree_parallel_ok=True, n_jobs_choices=n_jobs_choices,
                                 metrics=gen.MANY_METRICS))
        if in_d7(cfg) and D7 in ctx.active:
            ctx.exclude(D7)
            continue
        if in_d8(cfg) and D8 in ctx.active:
            ctx.exclude(D8)
            continue
        return cfg
    cfg["lp"] = ["UCB1", {"alpha": 1}]
    return cfg


# ---- (a) partition law, exhaustive --------------------------------------------------------------------------------

def partition_enum(tier, ctx, w, nw):
    n_hi = 64 if tier == "quick" else 400
    k = 0
    for cpu in (1, 2, 16, 64):
        for nj in list(range(-20, 0)) + list(range(1, 41)):
            for n in range(1, n_hi + 1):
                if k % nw == w:
                    yield {"n": n, "n_jobs": nj, "cpu": cpu}
                k += 1


_IMP = {}


def evaluate_partition(plan, ctx):
    import mabwiser.base_mab as bm
    from mabwiser.rand import _Random
    from mabwiser.utils import create_rng
    n, nj, cpu = plan["n"], plan["n_jobs"], plan["cpu"]
    imp = _IMP.get(nj)
    if imp is None:
        imp = _IMP[nj] = _Random(create_rng(1), [1, 2], nj, None)
    saved = bm.mp.cpu_count
    bm.mp.cpu_count = lambda: cpu
    try:
        got_jobs, sizes, starts = imp._partition_contexts(n)
    finally:
        bm.mp.cpu_count = saved
    eff = nj if nj > 0 else max(cpu + 1 + nj, 1)
    want = min(eff, n)
    ok = (got_jobs == want and len(sizes) == want and len(starts) == want + 1 and starts[0] == 0 and starts[-1] == n
          and all(b > a for a, b in zip(starts, starts[1:]))
          and all(s == b - a for s, a, b in zip(sizes, starts, starts[1:])) and sum(sizes) == n
          and max(sizes) - min(sizes) <= 1)
    if not ok:
        raise Violation("partition_law", "n=%d n_jobs=%d cpu=%d: n_jobs %r sizes %r starts %r (expected %d non-empty "
                        "contiguous chunks)" % (n, nj, cpu, got_jobs, sizes, starts, want))
    return Result(want >= 2, [])


# ---- (b) row locality for every partition ---------------------------------------------------------------------------

NHOOD = ["Radius", "KNearest", "LSHNearest", "Clusters", "TreeBandit"]


@st.composite
def locality_plan_st(draw, tier, ctx):
    cfg = draw_config(draw, ctx, NHOOD)
    h = gen.History(draw, cfg, max_rows=8, grid=draw(st.sampled_from(["int", "small", "half", "half"])))
    h.fit()
    for _ in range(draw(st.integers(0, 3))):
        gen.step_any(h, ["partial_fit", "partial_fit", "add_arm", "remove_arm"])
    n = draw(st.integers(2, 7))
    rows = draw(gen.contexts_st(n, h.d, h.grid))
    place_radius(draw, cfg, h.ops, rows)
    seeds = draw(st.lists(st.integers(0, 2 ** 31 - 2), min_size=n, max_size=n))
    comps = None
    if n > 5:
        comps = []
        for _ in range(6):
            cuts = sorted(draw(st.lists(st.integers(1, n - 1), min_size=1, max_size=n - 1, unique=True)))
            comps.append(cuts)
    order_key = draw(st.lists(st.integers(0, 5), min_size=n, max_size=n))
    interleave = draw(st.lists(st.integers(0, 2), min_size=3, max_size=12)) if draw(st.booleans()) else None
    return {"config": cfg, "ops": h.ops, "rows": rows, "seeds": seeds, "comps": comps, "order_key": order_key,
            "is_predict": draw(st.booleans()), "interleave": interleave}


def place_radius(draw, cfg, op_list, rows):
    """Radius bandits: two times in three the radius is set to a realised distance between a query row and a stored
    row under the configured metric (scipy is only used to pick an interesting value, not as an oracle), so that
    neighbourhoods are neither empty nor everything and rows sit exactly on the boundary."""
    if not cfg["np"] or cfg["np"][0] != "Radius" or "radius" not in cfg["np"][1] or draw(st.integers(0, 2)) == 0:
        return
    from scipy.spatial.distance import cdist
    stored = [r for op in op_list if op[0] in ops.TRAIN_OPS for r in op[3]]
    try:
        dm = cdist(np.asarray(stored, dtype=float), np.asarray(rows, dtype=float), metric=cfg["np"][1]["metric"])
    except Exception:
        return
    vals = sorted({float(v) for v in dm.ravel() if np.isfinite(v) and v > 0})
    if vals:
        cfg["np"][1]["radius"] = vals[draw(st.integers(0, len(vals) - 1))]


def locality_strategy(tier, ctx):
    return locality_plan_st(tier, ctx)


def canon_list(kind, out):
    return [ops.canon(kind, o)[1] for o in out]


def evaluate_locality(plan, ctx):
    cfg = plan["config"]
    mab = ops.build(cfg)
    twin.must_succeed(mab, plan["ops"], "history")
    imp = mab._imp
    rows = np.asarray(plan["rows"])
    seeds = np.asarray(plan["seeds"])
    n = len(rows)
    is_predict = plan["is_predict"]
    kind = "predict" if is_predict else "predict_expectations"
    blob = pickle.dumps(imp, protocol=4)
    try:
        whole = canon_list(kind, pickle.loads(blob)._predict_contexts(rows, is_predict, seeds, 0))
    except Exception as e:
        # e.g. mahalanobis with fewer rows than features: the metric rejects the data for every partition alike
        return Result(False, ["metric_rejects_data:" + type(e).__name__], skipped=True)
    if plan["comps"] is None:
        comps = [[i + 1 for i in range(n - 1) if (mask >> i) & 1] for mask in range(1, 2 ** (n - 1))]
    else:
        comps = plan["comps"]
    nt = not twin.is_deterministic(cfg)
    for cuts in comps:
        bounds = [0] + list(cuts) + [n]
        chunks = list(zip(bounds, bounds[1:]))
        # process-like: every chunk on its own unpickled copy
        got = []
        try:
            for s, e in chunks:
                got += canon_list(kind, pickle.loads(blob)._predict_contexts(rows[s:e], is_predict, seeds[s:e], s))
        except Exception as e:
            raise Violation("partition_dependent", "chunks %r raised %r although the whole batch succeeded" % (chunks, e),
                            bucket="partition_dependent_exception:" + _class(cfg))
        if not ops.same(got, whole):
            raise Violation("partition_dependent", "process-like, chunks %r: rows give %s, whole batch %s"
                            % (chunks, ops.short(got), ops.short(whole)),
                            bucket="partition_dependent:" + _class(cfg))
        # thread-like: the same object, chunks executed in a drawn order
        shared = pickle.loads(blob)
        order = sorted(range(len(chunks)), key=lambda i: (plan["order_key"][i % len(plan["order_key"])], -i))
        res = {}
        for i in order:
            s, e = chunks[i]
            res[i] = canon_list(kind, shared._predict_contexts(rows[s:e], is_predict, seeds[s:e], s))
        got = [x for i in range(len(chunks)) for x in res[i]]
        if not ops.same(got, whole):
            raise Violation("partition_dependent", "thread-like, chunks %r in order %r: rows give %s, whole batch %s"
                            % (chunks, order, ops.short(got), ops.short(whole)),
                            bucket="partition_dependent:" + _class(cfg))
    # preemptive threads: two or three chunk tasks on the SAME object, switched at every Python-level call inside
    # mabwiser according to a generated schedule (exactly one thread runs at a time, so the run is deterministic)
    ev_extra = []
    sched_keys = plan.get("interleave")
    if sched_keys:
        cuts = comps[(sum(sched_keys) + len(sched_keys)) % len(comps)]
        bounds = [0] + list(cuts) + [n]
        chunks = list(zip(bounds, bounds[1:]))[:3]
        if len(chunks) >= 2:
            last = chunks[-1][1]
            shared = pickle.loads(blob)
            import mabwiser
            prefix = os.path.dirname(os.path.abspath(mabwiser.__file__))
            tasks = [(lambda s=s, e=e: shared._predict_contexts(rows[s:e], is_predict, seeds[s:e], s)) for s, e in chunks]
            try:
                res, switches = sched.interleaved(tasks, sched_keys, prefix)
            except Exception as e:
                raise Violation("interleaving_raised", "chunks %r interleaved with schedule %r raised %r"
                                % (chunks, sched_keys, e), bucket="interleaving_raised:" + _class(cfg))
            got = [x for r in res for x in canon_list(kind, r)]
            if not ops.same(got, whole[:last]):
                raise Violation("partition_dependent", "preemptive threads, chunks %r, schedule %r (%d switches): rows "
                                "give %s, whole batch %s" % (chunks, sched_keys, switches, ops.short(got),
                                                             ops.short(whole[:last])),
                                bucket="schedule_dependent_preemptive:" + _class(cfg))
            ev_extra.append("preemptive_interleaving")
            if switches >= 2:
                nt = True
    return Result(nt, twin.pair_events(cfg) + ev_extra +
                  ["compositions=%s" % ("all" if plan["comps"] is None else "drawn")])


def _class(cfg):
    if in_d7(cfg):
        return "TreeBandit+randomised"
    if in_d8(cfg):
        return "LinTS+neighbourhood"
    return "other"


def big_query(draw, h):
    """Now and then one query batch of hundreds or thousands of rows (a few drawn rows, tiled): code paths that
    only open up for large batches. Only for bandits that predict vectorised (no neighbourhood policy); a
    neighbourhood policy answers row by row and would take seconds per call."""
    if h.np is None and h.fitted and draw(st.integers(0, 5)) == 0:
        rows = draw(gen.contexts_st(draw(st.integers(2, 5)), h.d if h.contextual else 1, h.grid))
        times = draw(st.sampled_from([120, 260, 420, 1700]))
        h.ops.append([draw(st.sampled_from(["predict_tiled", "predict_expectations_tiled"])), rows, times])


# ---- (c)+(d) schedule-owning executor with write-set monitor -----------------------------------------------------------

@st.composite
def schedule_plan_st(draw, tier, ctx):
    nj = draw(st.sampled_from([2, 3, 4, 7, -1]))
    cfg = draw_config(draw, ctx, gen.ALL_NP)
    if draw(st.integers(0, 9)) == 0:
        # training-time work that is split among workers exists only in a few places (per-arm fits, LSH hashing):
        # aim at them, here the Thompson binarizer applied to a whole batch of a context-free bandit
        cfg["np"] = None
        cfg["lp"] = ["ThompsonSampling", {"binarizer": draw(gen.binarizer_st(cfg["arms"]))}]
    cfg["n_jobs"] = nj
    cfg["backend"] = draw(st.sampled_from([None, "threading", "loky"]))
    h = gen.History(draw, cfg, max_rows=8, query_rows=(2, 3, 5, 6), grid=draw(st.sampled_from(["int", "half"])))
    h.fit()
    for _ in range(draw(st.integers(1, 6))):
        gen.step_any(h, ["partial_fit", "partial_fit", "fit", "add_arm", "remove_arm", "predict",
                         "predict_expectations", "predict_expectations"])
    h.predict_expectations()
    h.predict()
    if h.contextual:
        place_radius(draw, cfg, h.ops, [r for op in h.ops if op[0] in ("predict", "predict_expectations") and op[1]
                                         for r in op[1]])
    big_query(draw, h)
    keys = draw(st.lists(st.integers(0, 6), min_size=4, max_size=12))
    return {"config": cfg, "ops": h.ops, "keys": keys, "mode": draw(st.sampled_from(["thread", "process"]))}


def schedule_strategy(tier, ctx):
    return schedule_plan_st(tier, ctx)


def evaluate_schedule(plan, ctx):
    cfg = plan["config"]
    ref_cfg = dict(cfg, n_jobs=1, backend=None)
    ref = ops.build(ref_cfg)
    want = ops.run_ops(ref, plan["ops"])
    metric_exc = any(ops.is_exc(o) for o in want)
    if metric_exc and not (cfg["np"] and cfg["np"][1].get("metric") in ("mahalanobis", "seuclidean")):
        i = next(i for i, o in enumerate(want) if ops.is_exc(o))
        raise Violation("unexpected_exception", "n_jobs=1: op %d %s raised %s" % (i, plan["ops"][i][0], ops.short(want[i])))
    s = sched.Schedule(plan["keys"], plan["mode"])
    with sched.owned_schedule(s):
        b = ops.build(cfg)
        got = ops.run_ops(b, plan["ops"])
    d = ops.first_diff(want, got)
    if d is not None:
        raise Violation("schedule_dependent", "op %d %s: n_jobs=1 gave %s; n_jobs=%r with task order keys %r (%s mode) "
                        "gave %s" % (d, ops.short(plan["ops"][d], 100), ops.short(want[d]), cfg["n_jobs"], plan["keys"],
                                     plan["mode"], ops.short(got[d])), bucket="schedule_dependent:" + _class(cfg))
    if s.write_violations:
        raise Violation("write_set", "a shared-memory task wrote outside its own entries: %r" % (s.write_violations[:3],))
    nt = s.nonidentity > 0 or (not twin.is_deterministic(cfg) and s.max_tasks >= 2)
    return Result(nt, twin.pair_events(cfg) + ["mode=" + plan["mode"], "nonidentity_orders" if s.nonidentity else
                                               "identity_orders"])


def schedule_enum(tier, ctx, w, nw):
    """thorough only: all 24 task orders for a fixed family of 4-arm scenarios."""
    if tier != "thorough":
        return
    base = []
    for lp in (["EpsilonGreedy", {"epsilon": 0.25}], ["UCB1", {"alpha": 1}], ["Softmax", {"tau": 1}],
               ["ThompsonSampling", {}], ["Popularity", {}], ["LinUCB", {"alpha": 1, "l2_lambda": 1, "scale": False}],
               ["LinGreedy", {"epsilon": 0.25, "l2_lambda": 1, "scale": True}]):
        for npd in (None, ["TreeBandit", {"tree_parameters": {}}], ["LSHNearest", {"n_dimensions": 2, "n_tables": 2}]):
            if npd and npd[0] == "TreeBandit" and lp[0] not in ("UCB1",):
                continue
            base.append((lp, npd))
    k = 0
    for lp, npd in base:
        ctxl = npd is not None or lp[0] in ops.LINEAR
        for perm in itertools.permutations(range(4)):
            if k % nw == w:
                cfg = {"arms": [1, 2, 3, 4], "lp": lp, "np": npd, "seed": 7, "n_jobs": 4, "backend": None,
                       "arm_kind": "int"}
                dec = [1, 2, 3, 4, 1, 2, 3, 4, 2, 3]
                rew = [1, 0, 1, 1, 0, 1, 0, 0, 1, 1]
                cx = [[i % 3 - 1, (i * 7) % 5 - 2] for i in range(10)] if ctxl else None
                q = [[0, 1], [1, -1], [-1, 0], [2, 2]] if ctxl else None
                opl = [["fit", dec, rew, cx], ["partial_fit", dec[:6], rew[2:8], cx[:6] if cx else None],
                       ["predict_expectations", q], ["predict", q]]
                yield {"config": cfg, "ops": opl, "keys": list(perm), "mode": "thread"}
            k += 1


# ---- (e) real joblib -------------------------------------------------------------------------------------------------

@st.composite
def joblib_plan_st(draw, tier, ctx):
    cfg = draw_config(draw, ctx, gen.ALL_NP)
    h = gen.History(draw, cfg, max_rows=8, query_rows=(1, 2, 3, 5))
    h.fit()
    for _ in range(draw(st.integers(1, 4))):
        gen.step_any(h, ["partial_fit", "add_arm", "predict", "predict_expectations"])
    h.predict_expectations(m=draw(st.sampled_from([1, 2, 3, 5])))
    h.predict(m=draw(st.sampled_from([1, 3, 5])))
    h.partial_fit()
    h.predict_expectations(m=2)
    big_query(draw, h)
    minibatch = bool(cfg["np"]) and cfg["np"][0] == "Clusters" and cfg["np"][1].get("is_minibatch")
    if draw(st.integers(0, 3)) == 0 or (minibatch and draw(st.integers(0, 3)) > 0):
        # a history of well over a thousand distinct rows (the first fit repeated with a drift): estimators that size
        # their work by the number of rows or workers (mini-batch k-means) must not depend on n_jobs
        f = h.ops[0]
        h.ops[0] = ["fit_tiled", f[1], f[2], f[3], draw(st.sampled_from([600, 800])), 0.003]
    return {"config": cfg, "ops": h.ops}


def joblib_strategy(tier, ctx):
    return joblib_plan_st(tier, ctx)


def evaluate_joblib(plan, ctx):
    cfg = plan["config"]
    ref = ops.build(dict(cfg, n_jobs=1, backend=None))
    want = ops.run_ops(ref, plan["ops"])
    if any(ops.is_exc(o) for o in want) and not (cfg["np"] and cfg["np"][1].get("metric") in ("mahalanobis", "seuclidean")):
        i = next(i for i, o in enumerate(want) if ops.is_exc(o))
        raise Violation("unexpected_exception", "n_jobs=1: op %d raised %s" % (i, ops.short(want[i])))
    nmax = max([len(op[1]) for op in plan["ops"] if op[0] in ("predict", "predict_expectations") and op[1]] + [1])
    pairs = [(2, None), (3, "threading"), (nmax + 1, "threading"), (-1, "threading"), (-2, "threading"), (2, "loky"),
             (40, "threading")]
    if ctx.tier == "thorough":
        pairs += [(2, "multiprocessing"), (-1, "loky")]
    for nj, be in pairs:
        b = ops.build(dict(cfg, n_jobs=nj, backend=be))
        got = ops.run_ops(b, plan["ops"])
        d = ops.first_diff(want, got)
        if d is not None:
            raise Violation("backend_dependent", "op %d %s: n_jobs=1 gave %s, n_jobs=%r backend=%r gave %s"
                            % (d, ops.short(plan["ops"][d], 100), ops.short(want[d]), nj, be, ops.short(got[d])),
                            bucket="backend_dependent:" + _class(cfg))
    return Result(True, twin.pair_events(cfg))


SUBCHECKS = [
    SubCheck("partition", None, evaluate_partition, 0, 0, enumerate_fn=partition_enum),
    SubCheck("locality", locality_strategy, evaluate_locality, quick=2500, thorough=30000),
    SubCheck("schedule", schedule_strategy, evaluate_schedule, quick=3000, thorough=40000),
    SubCheck("schedule_all_orders", None, evaluate_schedule, 0, 0, enumerate_fn=schedule_enum),
    SubCheck("joblib", joblib_strategy, evaluate_joblib, quick=128, thorough=640, workers=16, quick_s=80,
             shrink=False),
]
KNOWN = {}

MANIFEST = {
    "level": "exploration",
    "technique": "exhaustive enumeration of the partition function; property-based testing with a schedule-owning "
                 "executor (generated task orders, write-set monitor), every chunk composition of the query rows, and "
                 "a differential run against real joblib backends",
    "design_ref": "DESIGN.md section 4, C05",
    "text": "The partition law is enumerated completely over its finite domain; row locality is checked for every "
            "composition of up to 5 rows (drawn compositions up to 7) in process-like and thread-like mode; per-arm fit "
            "and per-hash insert tasks are executed in generated orders with their write sets recorded; real joblib "
            "backends are compared with n_jobs=1. Exploration for everything except the partition sub-check.",
    "note": "Preemption inside a task is not executed (whole-task orders + disjoint write sets + CPython's atomic dict "
            "assignment). Known findings D7 and D8 are excluded by construction while they reproduce.",
}
