"""C12 - Clusters and TreeBandit condition on exactly the query's cell."""
import copy
import math

import numpy as np
from hypothesis import strategies as st

from vlib import gen, ops, streams, twin
from vlib.runner import Result, SubCheck, Violation

PROPERTY = "C12"
LEVEL = "exploration"
RULE = ("Sub-check tree_failed_call: a TreeBandit partial_fit that scikit-learn rejects for a later arm (a context value beyond single precision) after an earlier arm was updated; afterwards the bandit must behave like one that absorbed the usable rows or like one that never saw the call (either reading is accepted, a mixture is not). "
        "clusters: n_clusters 2..4, KMeans and MiniBatchKMeans, deterministic learning policies incl. linear, "
        "histories of fit / partial_fit (full refit) / add_arm / remove_arm; oracle: the query's cell is the set of "
        "stored rows i with kmeans.labels_[i] == kmeans.predict(q) on the fitted object mab._imp.kmeans, and the "
        "expectations must equal a fresh bandit (same learning policy, current arms) fit on those rows in stored "
        "order. tree: tree_parameters in {{}, max_depth, min_samples_leaf, splitter=random, max_features, criterion (absolute_error, friedman_mse), min_impurity_decrease, ccp_alpha, min_samples_split, "
        "max_leaf_nodes}, EpsilonGreedy(0) and UCB1, histories with arms first seen in a partial_fit and arm changes; "
        "oracle: per arm the leaf is arm_to_tree[arm].apply(q), the expectation is the reference statistic (mean; "
        "mean + alpha*sqrt(2 ln n / n)) over that arm's stored rewards whose contexts fall in that leaf, 0 for an arm "
        "without observations; and the tree must partition the stored rows and a grid exactly like an independently "
        "fitted DecisionTreeRegressor(**params, random_state=seed) on the first batch in which the arm occurred. "
        "Non-trivial: (clusters) the cell is a strict non-empty subset of the stored rows; (tree) a tree with >= 2 "
        "leaves and a partial_fit that added rewards to an existing leaf.")
ASSUMPTIONS = [
    "scikit-learn's fitted objects (KMeans labels_/predict, DecisionTreeRegressor.apply) are trusted to define the "
    "cells, as the property's observe_at says",
    "OMP_NUM_THREADS=1 (KMeans is otherwise not run-to-run deterministic)",
    "an empty k-means cell (fewer distinct points than clusters) is skipped and counted",
]
NT_FLOOR = 0.25

DET_LPS = ["EpsilonGreedy", "UCB1", "LinUCB", "LinGreedy"]


@st.composite
def clusters_plan_st(draw, tier):
    kind, arms = draw(gen.arms_st(("int", "str"), 1, 4))
    if draw(st.integers(0, 2)):
        lp = draw(gen.lp_st(DET_LPS, arms, deterministic=True, scale_ok=True))
    else:   # randomised policies, reproduced through the per-row seed (LinTS excluded: finding D8 of C05)
        lp = draw(gen.lp_st(["EpsilonGreedy", "Softmax", "ThompsonSampling", "Random", "LinGreedy"], arms,
                            scale_ok=True))
    cfg = {"arms": arms, "lp": lp,
           "np": ["Clusters", {"n_clusters": draw(st.integers(2, 4)),
                               "is_minibatch": draw(st.sampled_from([True, True, False]))}],
           "seed": draw(st.integers(0, 2 ** 20)), "n_jobs": 1, "backend": None, "arm_kind": kind}
    # (small histories: mini-batch k-means then leaves clusters without any row, with a centre of their own)
    h = gen.History(draw, cfg, grid=draw(st.sampled_from(["int", "half"])), d=draw(st.integers(1, 3)),
                    max_rows=draw(st.sampled_from([10, 10, 5])), exact_only=True)
    h.fit()
    for _ in range(draw(st.integers(0, 5))):
        gen.step_any(h, ["partial_fit", "partial_fit", "fit", "add_arm", "remove_arm", "predict",
                         "predict_expectations"])
    queries = draw(gen.contexts_st(draw(st.integers(1, 4)), h.d, h.grid))
    return {"config": cfg, "ops": h.ops, "queries": queries}


def clusters_strategy(tier, ctx):
    return clusters_plan_st(tier)


def replay_store(plan):
    """stored rows since the last fit, current arms, and per-row origin op index."""
    arms = list(plan["config"]["arms"])
    dec, rew, cx, origin = [], [], [], []
    for i, op in enumerate(plan["ops"]):
        if op[0] == "fit":
            dec, rew, cx, origin = [], [], [], []
        if op[0] in ("fit", "partial_fit"):
            dec += op[1]
            rew += op[2]
            cx += op[3]
            origin += [i] * len(op[1])
        elif op[0] == "add_arm":
            arms.append(op[1])
        elif op[0] == "remove_arm":
            arms.remove(op[1])
    return arms, dec, rew, cx, origin


def evaluate_clusters(plan, ctx):
    from mabwiser.mab import MAB
    cfg = plan["config"]
    mab = ops.build(cfg)
    for i, op in enumerate(plan["ops"]):
        o = ops.apply_op(mab, op)
        if ops.is_exc(o):
            raise Violation("unexpected_exception", "op %d %s raised %s" % (i, op[0], ops.short(o)),
                            bucket="unexpected_exception:%s:%s" % (op[0], o[1]))
    arms, dec, rew, cx, origin = replay_store(plan)
    # arm changes after the last training call: the cluster policies keep their state, new arms start neutral
    km = mab._imp.kmeans
    labels = list(km.labels_)
    ev = ["lp=" + cfg["lp"][0], "minibatch=%s" % cfg["np"][1]["is_minibatch"], "k=%d" % cfg["np"][1]["n_clusters"]]
    if len(labels) != len(cx):
        raise Violation("stored_rows", "k-means was fit on %d rows, the history since the last fit has %d"
                        % (len(labels), len(cx)))
    linear = cfg["lp"][0] in ops.LINEAR
    deterministic = twin.is_deterministic(cfg)
    tol = 1e-9 if linear else 0.0
    nt = False
    skipped = False
    # besides the generated queries: the centre of every cluster without a stored row (a query that lands in an empty
    # cell is otherwise rare)
    counts = [labels.count(c) for c in range(len(km.cluster_centers_))]
    centre_queries = [[float(v) for v in km.cluster_centers_[c]] for c, n_ in enumerate(counts) if n_ == 0]
    if centre_queries:
        ev.append("query_at_centre_of_empty_cluster")
    for q in list(plan["queries"]) + centre_queries:
        c = int(km.predict(np.asarray([q], dtype=float))[0])
        cell = [i for i, l in enumerate(labels) if l == c]
        row_seed = int(streams.clone_rng(mab._rng).randint(np.iinfo(np.int32).max, size=1)[0])
        out = ops.apply_op(mab, ["predict_expectations", [q]])
        if ops.is_exc(out):
            raise Violation("unexpected_exception", "predict_expectations(%r) raised %s" % (q, ops.short(out)))
        got = out[1]
        if [k for k, _ in got] != arms:
            raise Violation("keys", "keys %r, arms %r" % ([k for k, _ in got], arms))
        if not cell:
            # a k-means cluster without any stored observation (fewer distinct contexts than clusters, or mini-batch
            # k-means on a small history): the learning policy trained on nothing holds the neutral value
            ev.append("empty_cell")
            want0 = None
            try:
                # the policy of that cluster was trained on zero rows: a fresh bandit fit on zero rows
                f0 = MAB(list(arms), ops.make_lp(cfg["lp"]), None, row_seed)
                if linear:
                    f0.fit(np.array(dec[:0]), np.array([], dtype=float), np.zeros((0, len(q))))
                    want0 = ops.canon_expectations(f0.predict_expectations([q]))
                else:
                    f0.fit(np.array(dec[:0]), np.array([], dtype=float))
                    want0 = ops.canon_expectations(f0.predict_expectations())
            except Exception:
                want0 = None
            added0 = _added_since_training(plan)
            if want0 is not None and not added0 and cfg["lp"][0] not in ("EpsilonGreedy", "UCB1"):
                if not ops.same(got, want0, tol, tol):
                    raise Violation("empty_cell_value", "query %r falls into cluster %d which holds no stored "
                                    "observation: expectations %s, a bandit fit on zero rows gives %s"
                                    % (q, c, ops.short(got), ops.short(want0)))
                nt = True
                continue
            if cfg["lp"][0] in ("EpsilonGreedy", "UCB1") and deterministic:
                if not all(v == 0 for _, v in got):
                    raise Violation("empty_cell_value", "query %r falls into cluster %d which holds no stored observation, "
                                    "but the expectations are %s instead of the neutral 0" % (q, c, ops.short(got)))
            else:
                skipped = True
            continue
        # the cluster policy was trained at the last training call with the arms of that time; arms added since
        # are neutral, arms removed since are gone: a fresh bandit with the *current* arms fit on the cell rows
        fresh = MAB(list(arms), ops.make_lp(cfg["lp"]), None, row_seed)
        cd, cr, cc = [dec[i] for i in cell], [rew[i] for i in cell], [cx[i] for i in cell]
        if linear:
            fresh.fit(cd, cr, cc)
            want = ops.canon_expectations(fresh.predict_expectations([q]))
        else:
            fresh.fit(cd, cr)
            want = ops.canon_expectations(fresh.predict_expectations())
        # an arm added after the last training call has not been seen by the cluster policies yet (even if rows of
        # an earlier arm with the same label are still stored): it holds the neutral value until the next training
        new_arms = _added_since_training(plan)
        if new_arms and not deterministic:
            skipped = True          # a randomised draw for an arm the cluster policy has not seen is not modelled
            ev.append("new_arm_randomised_skipped")
            continue
        if new_arms:
            ev.append("arm_added_since_training")
            if linear:
                keep = [i for i in cell if dec[i] not in new_arms]
                if keep:
                    f2 = MAB(list(arms), ops.make_lp(cfg["lp"]), None, cfg["seed"])
                    f2.fit([dec[i] for i in keep], [rew[i] for i in keep], [cx[i] for i in keep])
                    w2 = ops.canon_expectations(f2.predict_expectations([q]))
                    for j, a in enumerate(arms):
                        if a in new_arms:
                            want[j][1] = w2[j][1]
                else:
                    skipped = True
                    continue
            else:
                for j, a in enumerate(arms):
                    if a in new_arms:
                        want[j][1] = 0.0
        if not ops.same(got, want, rtol=tol, atol=tol):
            raise Violation("cell_value", "query %r in cluster %d: library %s, fresh bandit on cell rows %r -> %s"
                            % (q, c, ops.short(got), cell, ops.short(want)))
        if 0 < len(cell) < len(cx):
            nt = True
        if len({origin[i] for i in cell}) > 1:
            ev.append("cell_mixes_batches")
    if deterministic:
        _batch_equals_rows(mab, plan["queries"], tol)
    return Result(nt, ev, skipped)


def _batch_equals_rows(mab, queries, tol):
    """every row of a multi-row call is routed to its own cell: the batch equals the single-row calls."""
    if len(queries) < 2:
        return
    whole = ops.apply_op(mab, ["predict_expectations", queries])
    if ops.is_exc(whole) or whole[0] != "L" or len(whole[1]) != len(queries):
        raise Violation("batch_shape", "predict_expectations on %d rows gave %s" % (len(queries), ops.short(whole)))
    for i, q in enumerate(queries):
        one = ops.apply_op(mab, ["predict_expectations", [q]])
        if not ops.same(one[1], whole[1][i], rtol=tol, atol=tol):
            raise Violation("row_routing", "row %d %r: alone %s, inside the batch %s"
                            % (i, q, ops.short(one[1]), ops.short(whole[1][i])))


def _added_since_training(plan):
    added = set()
    for op in plan["ops"]:
        if op[0] == "add_arm":
            added.add(op[1])
        elif op[0] == "remove_arm":
            added.discard(op[1])
        elif op[0] in ("fit", "partial_fit"):
            added = set()
    return added


# ---- TreeBandit ------------------------------------------------------------------------------------------------

TREE_PARAMS = [{}, {"max_depth": 2}, {"min_samples_leaf": 2}, {"max_depth": 1}, {"splitter": "random"},
               {"max_features": 1}, {"max_leaf_nodes": 3}, {"random_state": None, "max_features": 1},
               {"random_state": 5, "splitter": "random"},
               # other split criteria (the value scikit-learn keeps in a node is then not the mean of the leaf) and
               # pruning / stopping parameters
               {"criterion": "absolute_error", "max_depth": 1}, {"criterion": "absolute_error", "min_samples_leaf": 3},
               {"criterion": "absolute_error", "max_leaf_nodes": 2}, {"criterion": "friedman_mse", "max_leaf_nodes": 2},
               {"min_impurity_decrease": 0.5}, {"ccp_alpha": 0.1}, {"min_samples_split": 4}]


@st.composite
def tree_plan_st(draw, tier):
    kind, arms = draw(gen.arms_st(("int", "str"), 1, 4))
    lp = draw(gen.lp_st(["EpsilonGreedy", "UCB1"], arms, deterministic=True))
    tp = draw(st.sampled_from(TREE_PARAMS))
    npd = ["TreeBandit", {"_default": True}] if (tp == {} and draw(st.booleans())) else \
        ["TreeBandit", {"tree_parameters": dict(tp)}]
    cfg = {"arms": arms, "lp": lp, "np": npd, "seed": draw(st.integers(0, 2 ** 20)), "n_jobs": 1, "backend": None,
           "arm_kind": kind}
    h = gen.History(draw, cfg, grid=draw(st.sampled_from(["int", "small", "int", "f32edge"])), d=draw(st.integers(1, 3)),
                    max_rows=10, exact_only=True)
    h.fit()
    for _ in range(draw(st.integers(0, 6))):
        # queries in the middle of the history: whatever a prediction leaves behind must not survive a later fit
        gen.step_any(h, ["partial_fit", "partial_fit", "partial_fit", "fit", "add_arm", "remove_arm", "predict",
                         "predict_expectations"])
    queries = draw(gen.contexts_st(draw(st.integers(1, 4)), h.d, h.grid))
    wide = None
    if draw(st.integers(0, 14)) == 0:
        # embedding-sized contexts: the generated features sit in the middle of 1200 columns, all others are zero
        # (rows then agree in their first and last columns and differ in between)
        wide = {"d": 1200, "active": sorted(draw(st.lists(st.integers(400, 800), min_size=h.d, max_size=h.d,
                                                              unique=True)))}
        if len(queries) < 2:
            queries = queries + draw(gen.contexts_st(2, h.d, h.grid))
    return {"config": cfg, "ops": h.ops, "queries": queries, "tree_parameters": dict(tp), "wide": wide}


def widen(plan):
    w = plan["wide"]

    def full(row):
        out = [0] * w["d"]
        for pos, v in zip(w["active"], row):
            out[pos] = v
        return out

    p = copy.deepcopy(plan)
    for op in p["ops"]:
        if op[0] in ("fit", "partial_fit"):
            op[3] = [full(r) for r in op[3]]
        elif op[0] in ("predict", "predict_expectations") and op[1] is not None:
            op[1] = [full(r) for r in op[1]]
    p["queries"] = [full(q) for q in p["queries"]]
    p["wide"] = None
    return p


def tree_strategy(tier, ctx):
    return tree_plan_st(tier)


def evaluate_tree(plan, ctx):
    from sklearn.tree import DecisionTreeRegressor
    was_wide = bool(plan.get("wide"))
    if was_wide:
        plan = widen(plan)
    cfg = plan["config"]
    name, params = cfg["lp"]
    mab = ops.build(cfg)
    arms = list(cfg["arms"])
    store = {a: {"first": None, "rows": []} for a in arms}      # since the last fit / since the arm was added
    pf_into_existing = False
    for i, op in enumerate(plan["ops"]):
        o = ops.apply_op(mab, op)
        if ops.is_exc(o):
            raise Violation("unexpected_exception", "op %d %s raised %s" % (i, op[0], ops.short(o)),
                            bucket="unexpected_exception:%s:%s" % (op[0], o[1]))
        if op[0] == "fit":
            store = {a: {"first": None, "rows": []} for a in arms}
        if op[0] in ("fit", "partial_fit"):
            for a in arms:
                rows = [(x, r) for d_, r, x in zip(op[1], op[2], op[3]) if d_ == a]
                if not rows:
                    continue
                if store[a]["first"] is None:
                    store[a]["first"] = rows
                elif op[0] == "partial_fit":
                    pf_into_existing = True
                store[a]["rows"] += rows
        elif op[0] == "add_arm":
            arms.append(op[1])
            store[op[1]] = {"first": None, "rows": []}
        elif op[0] == "remove_arm":
            arms.remove(op[1])
            del store[op[1]]
    d = len(plan["queries"][0])
    grid = [[v] * d for v in (-3, -1, 0, 1, 3)] + plan["queries"]
    ev = ["lp=" + name, "params=" + (",".join(sorted(plan["tree_parameters"])) or "default")]
    if was_wide:
        ev.append("contexts_with_1200_columns")
    leaves_max = 1
    trees = mab._imp.arm_to_tree
    for a in arms:
        if store[a]["first"] is None:
            continue
        tree = trees[a]
        X0 = np.asarray([x for x, _ in store[a]["first"]], dtype=float)
        y0 = np.asarray([r for _, r in store[a]["first"]], dtype=float)
        tparams = {k: v for k, v in plan["tree_parameters"].items() if k != "random_state"}  # the bandit's seed rules
        indep = DecisionTreeRegressor(**tparams, random_state=cfg["seed"]).fit(X0, y0)
        pts = np.asarray([x for x, _ in store[a]["rows"]] + grid, dtype=float)
        la, lb = tree.apply(pts), indep.apply(pts)
        # same partition of the points (leaf ids of two equal trees are equal as well)
        if not np.array_equal(la, lb):
            raise Violation("tree_differs", "arm %r: the library's tree and an independent DecisionTreeRegressor(%r, "
                            "random_state=%r) fit on the arm's first batch put the points into different leaves: %r vs %r"
                            % (a, plan["tree_parameters"], cfg["seed"], la.tolist(), lb.tolist()))
        leaves_max = max(leaves_max, tree.get_n_leaves())
    for q in plan["queries"]:
        out = ops.apply_op(mab, ["predict_expectations", [q]])
        if ops.is_exc(out):
            raise Violation("unexpected_exception", "predict_expectations(%r) raised %s" % (q, ops.short(out)))
        got = out[1]
        if [k for k, _ in got] != arms:
            raise Violation("keys", "keys %r, arms %r" % ([k for k, _ in got], arms))
        for j, a in enumerate(arms):
            if store[a]["first"] is None:
                want = 0.0
                leaf = None
                rs = []
            else:
                tree = trees[a]
                leaf = int(tree.apply(np.asarray([q], dtype=float))[0])
                X = np.asarray([x for x, _ in store[a]["rows"]], dtype=float)
                lv = tree.apply(X)
                rs = [r for (x, r), l in zip(store[a]["rows"], lv) if l == leaf]
                if not rs:
                    raise Violation("empty_leaf", "arm %r: query %r falls in leaf %d which holds no stored reward" % (a, q, leaf))
                mean = math.fsum(rs) / len(rs)
                want = mean if name == "EpsilonGreedy" else \
                    mean + params["alpha"] * math.sqrt(2.0 * math.log(len(rs)) / len(rs))
            if not ops.float_eq(got[j][1], want, rtol=1e-12, atol=1e-12):
                raise Violation("leaf_value", "arm %r query %r leaf %r: library %r, reference %r over leaf rewards %r"
                                % (a, q, leaf, got[j][1], want, rs[:12]))
    _batch_equals_rows(mab, plan["queries"], 1e-12)
    nt = leaves_max >= 2 and pf_into_existing
    if leaves_max >= 2:
        ev.append("multi_leaf_tree")
    if pf_into_existing:
        ev.append("partial_fit_into_existing_tree")
    return Result(nt, ev)


# ---- TreeBandit after a training call that scikit-learn rejected part-way --------------------------------------------
# A partial_fit whose rows for a later arm cannot be used (a finite context value beyond the range of the trees' single
# precision) raises after earlier arms were updated.  No property says whether those arms keep what they absorbed; both
# readings are accepted.  What C12 does say is that afterwards every arm's expectation is the statistic over the rewards
# in the query's leaf of *that arm's tree*: the bandit must go on exactly like one that absorbed the usable rows of the
# failed call, or exactly like one that never saw the call - not like a mixture (rewards filed under the leaves of a tree
# that was replaced since).

@st.composite
def failed_call_plan_st(draw, tier):
    kind, arms = draw(gen.arms_st(("int", "str"), 2, 3))
    d = draw(st.integers(1, 3))
    lp = draw(st.sampled_from([["EpsilonGreedy", {"epsilon": 0}], ["UCB1", {"alpha": 1}], ["UCB1", {"alpha": 0.5}]]))
    cfg = {"arms": arms, "lp": lp, "np": ["TreeBandit", {}], "seed": draw(st.integers(0, 2 ** 16)), "n_jobs": 1,
           "backend": None, "arm_kind": kind}
    early, late = arms[0], arms[-1]

    def rows(arm, lo, hi):
        n = draw(st.integers(lo, hi))
        return [arm] * n, draw(st.lists(st.integers(-5, 9), min_size=n, max_size=n)), draw(gen.contexts_st(n, d, "int"))

    def join(*parts):
        return [sum([list(p_[i]) for p_ in parts], []) for i in range(3)]

    first = join(rows(late, 2, 5), rows(early, 0, 3) if draw(st.integers(0, 2)) == 0 else ([], [], []))
    usable = rows(early, 2, 6)
    poison_row = draw(gen.contexts_st(1, d, "int"))[0]
    poison_row[draw(st.integers(0, d - 1))] = draw(st.sampled_from([1e39, -1e39, 1e300]))
    failing = join(usable, ([late], [draw(st.integers(-5, 9))], [poison_row]))
    clean = join(rows(early, 2, 6), rows(late, 0, 2))
    queries = draw(gen.contexts_st(draw(st.integers(2, 5)), d, "int")) + [list(r) for r in usable[2][:2]]
    return {"config": cfg, "first": first, "failing": failing, "usable": join(usable), "clean": clean, "queries": queries}


def failed_call_strategy(tier, ctx):
    return failed_call_plan_st(tier)


def evaluate_failed_call(plan, ctx):
    cfg = plan["config"]

    def run(calls):
        m = ops.build(cfg)
        outs = []
        for name, (dec, rew, cx) in calls:
            outs.append(ops.apply_op(m, [name, dec, rew, cx]))
        return m, outs

    a, outs = run([("fit", plan["first"]), ("partial_fit", plan["failing"]), ("partial_fit", plan["clean"])])
    if ops.is_exc(outs[0]) or ops.is_exc(outs[2]):
        raise Violation("unexpected_exception", "fit / clean partial_fit raised %s / %s" % (ops.short(outs[0]), ops.short(outs[2])))
    if not ops.is_exc(outs[1]):
        return Result(False, ["poisoned_call_accepted"], skipped=True)
    absorbed, o1 = run([("fit", plan["first"]), ("partial_fit", plan["usable"]), ("partial_fit", plan["clean"])])
    atomic, o2 = run([("fit", plan["first"]), ("partial_fit", plan["clean"])])
    if any(ops.is_exc(o) for o in o1 + o2):
        raise Violation("unexpected_exception", "reference histories raised")
    got = [ops.apply_op(a, ["predict_expectations", [q]]) for q in plan["queries"]]
    w1 = [ops.apply_op(absorbed, ["predict_expectations", [q]]) for q in plan["queries"]]
    w2 = [ops.apply_op(atomic, ["predict_expectations", [q]]) for q in plan["queries"]]
    ev = ["lp=" + cfg["lp"][0], "failed_call:" + outs[1][1]]
    if ops.same(got, w1):
        ev.append("usable_rows_absorbed")
    elif ops.same(got, w2):
        ev.append("failed_call_left_nothing")
    else:
        raise Violation("leaf_statistic_after_failed_call",
                        "after a partial_fit that raised %s the expectations %s are neither those of a bandit that absorbed "
                        "the usable rows of that call (%s) nor those of one that never saw it (%s)"
                        % (outs[1][1], ops.short(got, 300), ops.short(w1, 300), ops.short(w2, 300)))
    early = cfg["arms"][0]
    return Result(early not in plan["first"][0], ev)


SUBCHECKS = [
    SubCheck("clusters", clusters_strategy, evaluate_clusters, quick=6000, thorough=60000),
    SubCheck("tree", tree_strategy, evaluate_tree, quick=4000, thorough=40000),
    SubCheck("tree_failed_call", failed_call_strategy, evaluate_failed_call, quick=800, thorough=8000),
]
KNOWN = {}

MANIFEST = {
    "level": "exploration",
    "technique": "property-based testing: generated histories incl. arm changes (Hypothesis) vs cell membership read "
                 "from the fitted scikit-learn object plus a from-scratch bandit / reference statistic; independent "
                 "tree refit",
    "design_ref": "DESIGN.md section 4, C12",
    "text": "For generated Clusters and TreeBandit configurations and histories, the returned expectations must equal "
            "the learning policy's statistic over exactly the stored observations in the query's k-means cell / tree "
            "leaf, and each arm's tree must equal an independently fitted tree on the arm's first batch. Search, not "
            "proof.",
    "note": "Trusted: scikit-learn's KMeans.labels_/predict and DecisionTreeRegressor.fit/apply define the cells; "
            "single-threaded numerical kernels.",
}
