"""C16 - Simulator bookkeeping is a faithful account of the data."""
import math

import numpy as np
from hypothesis import strategies as st

from vlib import ops, simgen, twin
from vlib.runner import Result, SubCheck, Violation

PROPERTY = "C16"
LEVEL = "exploration"
RULE = ("One bandit in three has been trained and queried through the public API before the Simulator (and the reference copy) sees it. "
        "The generated simulations of C15 plus arms that never occur in the data and batch sizes that do not divide "
        "the test size. After run(): the test indices and their complement partition the rows (the last rows when "
        "ordered); every bandit has exactly one prediction per test row, each a current arm; arm_to_stats_total / "
        "train / test equal a direct numpy recomputation (count, sum, min, max, mean, population std; zeros for "
        "absent arms); train + test counts (exact) and sums (1e-9) give the totals; the min / avg / max analyses "
        "equal an independent re-implementation of the documented default evaluation computed from the published "
        "predictions, the test rows, the training statistics and the published neighbourhood statistics; evaluated "
        "counts sum to the number of rows per batch and in total; per arm sum_min <= sum_avg <= sum_max. "
        "Non-trivial: an arm absent from train or test, or a non-dividing batch size, or a prediction that differs "
        "from the logged decision.")
ASSUMPTIONS = [
    "the neighbourhood statistics the simulator publishes (bandit_to_arm_to_stats_neighborhoods) are taken as inputs "
    "of the evaluator re-implementation; their own correctness is covered by C15's replay of the neighbourhoods",
    "floating-point statistics are compared with 1e-9 relative tolerance",
]
NT_FLOOR = 0.3
STATS = ("count", "sum", "min", "max", "mean", "std")


def strategy(tier, ctx):
    return simgen.sim_plan_st(tier, ctx, want_absent_arms=True)


def np_stats(rs):
    a = np.asarray(rs, dtype=float)
    if a.size == 0:
        return {"count": 0, "sum": 0, "min": 0, "max": 0, "mean": 0, "std": 0}
    return {"count": int(a.size), "sum": float(math.fsum(a)), "min": float(a.min()), "max": float(a.max()),
            "mean": float(math.fsum(a) / a.size), "std": float(math.sqrt(math.fsum((a - a.mean()) ** 2) / a.size))}


def close(a, b, tol=1e-9):
    a, b = float(a), float(b)
    if math.isnan(a) or math.isnan(b):
        return math.isnan(a) and math.isnan(b)
    return abs(a - b) <= tol * max(1.0, abs(a), abs(b))


def cmp_stats(got, want, what):
    for k in STATS:
        if k not in got:
            raise Violation("stats_missing", "%s lacks %r: %r" % (what, k, got))
        if not close(got[k], want[k]):
            raise Violation("stats_value", "%s: %s is %r, recomputation %r (all: %r vs %r)"
                            % (what, k, ops.py(got[k]), want[k], {x: ops.py(got[x]) for x in STATS}, want),
                            bucket="stats_value:" + what.split(" ")[0])


def reference_evaluation(arms, decisions, rewards, predictions, train_stats, nhood_stats, stat, start_index):
    """Documented default evaluation: observed reward where the prediction equals the logged decision, otherwise
    the predicted arm's neighbourhood statistic if published for that row and arm, else its training statistic."""
    per_arm = {a: [] for a in arms}
    for i, p in enumerate(predictions):
        if p == decisions[i]:
            per_arm[p].append(rewards[i])
        else:
            v = None
            if nhood_stats is not None:
                row = nhood_stats[start_index + i]
                if row and row.get(p):
                    v = row[p][stat]
            if v is None:
                v = train_stats[p][stat]
            per_arm[p].append(v)
    out = {}
    for a in arms:
        if per_arm[a]:
            out[a] = np_stats(per_arm[a])
        else:
            out[a] = {"count": 0, "sum": math.nan, "min": math.nan, "max": math.nan, "mean": math.nan, "std": math.nan}
    return out


def evaluate(plan, ctx):
    bandits = simgen.build_bandits(plan)
    try:
        sim = simgen.run_simulator(plan, bandits)
    except Exception as e:
        if any(b["config"]["np"] and b["config"]["np"][1].get("metric") in ("mahalanobis", "seuclidean")
               for b in plan["bandits"]):
            return Result(False, ["metric_rejects_data:" + type(e).__name__], skipped=True)
        raise Violation("simulator_raised", "Simulator raised %r" % (e,), bucket="simulator_raised:" + type(e).__name__)
    arms = list(plan["arms"])
    dec, rew = plan["decisions"], plan["rewards"]
    n = len(dec)
    te = [int(i) for i in sim.test_indices]
    if len(set(te)) != len(te) or not all(0 <= i < n for i in te):
        raise Violation("test_indices", "test indices %r are not distinct rows of 0..%d" % (te, n - 1))
    if plan.get("exact_count", True) and len(te) != plan["n_test"]:
        raise Violation("test_size", "%d test rows for test_size %r of %d rows (expected %d)" % (len(te), plan["test_size"], n, plan["n_test"]))
    if plan["is_ordered"] and te != list(range(n - len(te), n)):
        raise Violation("test_indices", "ordered split: test indices %r are not the last %d rows" % (te, len(te)))
    tr = [i for i in range(n) if i not in set(te)]
    test_dec, test_rew = [dec[i] for i in te], [rew[i] for i in te]
    nt = False
    ev = ["online" if plan["batch_size"] else "offline", "quick" if plan["is_quick"] else "full"]
    if plan.get("scaler"):
        ev.append("scaler=" + plan["scaler"])
    if plan.get("binarized"):
        ev.append("thompson_binarizer")
    ev.append("data=" + plan.get("data_container", "list"))
    if any(b.get("pre") for b in plan["bandits"]):
        ev.append("bandit_used_before_the_simulation")
    # per-arm statistics
    for scope, idx, got in (("total", list(range(n)), sim.arm_to_stats_total), ("train", tr, sim.arm_to_stats_train),
                            ("test", te, sim.arm_to_stats_test)):
        if list(got.keys()) != arms:
            raise Violation("stats_keys", "%s statistics keyed by %r, arms %r" % (scope, list(got.keys()), arms))
        for a in arms:
            rs = [rew[i] for i in idx if dec[i] == a]
            cmp_stats(got[a], np_stats(rs), "%s arm %r" % (scope, a))
            if not rs and scope != "total":
                nt = True
                ev.append("arm_absent_from_" + scope)
    for a in arms:
        t, r, s = sim.arm_to_stats_total[a], sim.arm_to_stats_train[a], sim.arm_to_stats_test[a]
        if t["count"] != r["count"] + s["count"] or not close(t["sum"], r["sum"] + s["sum"]):
            raise Violation("stats_additivity", "arm %r: total %r/%r, train %r/%r, test %r/%r"
                            % (a, t["count"], t["sum"], r["count"], r["sum"], s["count"], s["sum"]))
    bs = plan["batch_size"]
    if bs and len(te) % bs:
        nt = True
        ev.append("non_dividing_batch")
    for b in plan["bandits"]:
        name, cfg = b["name"], b["config"]
        preds = [ops.py(p) for p in sim.bandit_to_predictions[name]]
        if len(preds) != len(te):
            raise Violation("prediction_count", "%s: %d predictions for %d test rows" % (name, len(preds), len(te)))
        if any(p not in arms for p in preds):
            raise Violation("prediction_member", "%s predicted %r, arms %r" % (name, preds, arms))
        if any(p != d_ for p, d_ in zip(preds, test_dec)):
            nt = True
        nn = simgen.is_replaced(cfg) and not plan["is_quick"]
        nh = sim.bandit_to_arm_to_stats_neighborhoods.get(name) if nn else None
        if nn and (nh is None or len(nh) != len(te)):
            raise Violation("nhood_stats_count", "%s publishes %r neighbourhood statistics for %d test rows"
                            % (name, None if nh is None else len(nh), len(te)))
        analyses = (("min", sim.bandit_to_arm_to_stats_min[name]), ("mean", sim.bandit_to_arm_to_stats_avg[name]),
                    ("max", sim.bandit_to_arm_to_stats_max[name]))
        if bs:
            batches = [(i, s, min(s + bs, len(te))) for i, s in enumerate(range(0, len(te), bs))]
            parts = [(i, s, e) for i, s, e in batches] + [("total", 0, len(te))]
        else:
            parts = [(None, 0, len(te))]
        sums = {}
        for stat, table in analyses:
            for key, s, e in parts:
                got = table if key is None else table.get(key)
                if got is None:
                    raise Violation("analysis_missing", "%s: %s analysis has no entry %r (keys %r)"
                                    % (name, stat, key, list(table.keys())))
                want = reference_evaluation(arms, test_dec[s:e], test_rew[s:e], preds[s:e], sim.arm_to_stats_train, nh,
                                            stat, s)
                if list(got.keys()) != arms:
                    raise Violation("analysis_keys", "%s %s analysis keyed by %r" % (name, stat, list(got.keys())))
                for a in arms:
                    cmp_stats(got[a], want[a], "evaluation %s/%s part %r arm %r" % (name, stat, key, a))
                cnt = sum(got[a]["count"] for a in arms)
                if cnt != e - s:
                    raise Violation("evaluated_count", "%s %s part %r: evaluated counts sum to %d for %d rows"
                                    % (name, stat, key, cnt, e - s))
                sums[(stat, key)] = {a: got[a]["sum"] for a in arms}
        for key, s, e in parts:
            for a in arms:
                lo, mid, hi = sums[("min", key)][a], sums[("mean", key)][a], sums[("max", key)][a]
                if any(isinstance(x, float) and math.isnan(x) for x in (lo, mid, hi)):
                    continue
                tol = 1e-9 * max(1.0, abs(lo), abs(mid), abs(hi))
                if not (lo <= mid + tol and mid <= hi + tol):
                    raise Violation("analysis_order", "%s part %r arm %r: sum_min %r, sum_avg %r, sum_max %r"
                                    % (name, key, a, lo, mid, hi))
        ev += twin.pair_events(cfg)
    return Result(nt, ev)


SUBCHECKS = [SubCheck("bookkeeping", strategy, evaluate, quick=8000, thorough=60000)]
KNOWN = {}

MANIFEST = {
    "level": "exploration",
    "technique": "property-based testing: generated simulations (Hypothesis), conservation laws plus an independent "
                 "re-implementation of the descriptive statistics and of the default evaluator",
    "design_ref": "DESIGN.md section 4, C16",
    "text": "For generated simulations (arms absent from train or test, non-dividing batch sizes, quick and full mode) "
            "the public attributes after run() must satisfy the partition / count / additivity laws and equal an "
            "independent recomputation of the statistics and of the default evaluation. Search, not proof.",
    "note": "Trusted: numpy / math.fsum for the recomputation; the neighbourhood statistics the simulator publishes "
            "are inputs of the evaluator re-implementation.",
}
