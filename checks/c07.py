"""C07 - fit discards everything learned before."""
import numpy as np
from hypothesis import strategies as st

from vlib import gen, ops, streams, twin
from vlib.runner import Result, SubCheck, Violation

PROPERTY = "C07"
LEVEL = "exploration"
RULE = ("A generated prior history (fit, partial_fit, add/remove arm, warm_start, queries; any policy pair) is "
        "followed by fit(D), with D smaller / larger / with a different number of feature columns than before (one "
        "case in four: D delivered in the ndarray objects of an earlier fit, overwritten in place; one case in twelve: "
        "the prior history contains a training call that failed part-way - l2_lambda=0, a batch singular for a later "
        "arm). A "
        "fresh bandit is constructed from the public properties (arms, learning_policy, neighborhood_policy, seed, "
        "n_jobs, backend), given the re-fitted bandit's random-stream positions from just before fit(D), and fit on "
        "D; both then run a generated continuation (queries, cold_arms, partial_fit, arm changes, warm_start) and "
        "must agree exactly. Non-trivial: the prior history contains a fit/partial_fit on other data and at least "
        "one of partial_fit / arm change / warm_start (for LSHNearest additionally: D shorter than the old history "
        "is tracked as an event).")
ASSUMPTIONS = [
    "the fresh twin is built through MAB's public constructor from the public properties of the old bandit",
    "stream positions are copied path by path; when the generator alias structure of the two bandits differs "
    "before fit(D) (linear arm models hold private generator copies) an aliased group takes the position of its "
    "first path - after fit(D) both bandits must have the same structure, nothing is normalised",
]
NT_FLOOR = 0.2


@st.composite
def failed_call_plan_st(draw, tier):
    """A prior history in which a training call failed part-way: a linear policy with l2_lambda=0 (a valid value) and
    one feature, a batch that is regular for an arm listed early and singular (all-zero contexts) for a later arm
    that has no data yet - numpy raises LinAlgError after the earlier arm was updated. Whatever that leaves behind,
    fit(D) must discard it."""
    kind, arms = draw(gen.arms_st(("int", "str"), 2, 4))
    name = draw(st.sampled_from(["LinGreedy", "LinUCB"]))
    params = {"l2_lambda": 0, "scale": False}
    params.update({"epsilon": 0} if name == "LinGreedy" else {"alpha": draw(st.sampled_from([0, 1, 0.5]))})
    cfg = {"arms": arms, "lp": [name, params], "np": None, "seed": draw(st.integers(0, 2 ** 20)), "n_jobs": 1,
           "backend": None, "arm_kind": kind}
    nz = st.sampled_from([1, 2, -1, 3, -2])
    rw = st.integers(-5, 5)

    def good(arm_subset, n):
        dec = [draw(st.sampled_from(arm_subset)) for _ in range(n)]
        return dec, [draw(rw) for _ in dec], [[draw(nz)] for _ in dec]

    prior = []
    i = draw(st.integers(0, len(arms) - 2))
    j = draw(st.integers(i + 1, len(arms) - 1))
    if draw(st.booleans()):
        prior.append(["fit"] + list(good([arms[i]], draw(st.integers(1, 4)))))
    d1, r1, c1 = good([arms[i]], draw(st.integers(1, 3)))
    bad = [draw(st.sampled_from(["fit", "partial_fit"])), d1 + [arms[j]] * 2, r1 + [draw(rw), draw(rw)], c1 + [[0], [0]]]
    prior.append(bad)
    may_fail = [len(prior) - 1]
    for _ in range(draw(st.integers(0, 2))):
        prior.append([draw(st.sampled_from(["predict", "predict_expectations"])), [[draw(nz)]]])
        may_fail.append(len(prior) - 1)       # (nothing may have been trained yet)
    subset = draw(st.lists(st.sampled_from(arms), min_size=1, max_size=len(arms), unique=True))
    refit = ["fit"] + list(good(subset, draw(st.integers(1, 6))))
    cont = []
    for _ in range(draw(st.integers(1, 4))):
        if draw(st.integers(0, 2)) == 0:
            cont.append(["partial_fit"] + list(good(subset, draw(st.integers(1, 3)))))
        else:
            cont.append([draw(st.sampled_from(["predict", "predict_expectations"])),
                         [[draw(nz)] for _ in range(draw(st.integers(1, 3)))]])
    return {"config": cfg, "prior": prior, "refit": refit, "cont": cont, "old_rows": 0, "buffer_from": None,
            "prior_may_fail": may_fail}


@st.composite
def plan_st(draw, tier):
    if draw(st.integers(0, 11)) == 0:
        return draw(failed_call_plan_st(tier))
    cfg = draw(gen.config_st(metrics=gen.SAFE_METRICS, arm_kinds=("int", "str", "float", "mix"), max_arms=4, with_binarizer=True, scale_ok=True,
                             defaults_ok=True))
    h = gen.History(draw, cfg, max_rows=8)
    for _ in range(draw(st.sampled_from([0, 0, 1]))):
        gen.step_any(h, gen.ARM_KINDS + gen.WARM_KINDS, True)
    h.fit() if draw(st.integers(0, 3)) else h.partial_fit()
    for _ in range(draw(st.integers(0, 7 if tier == "quick" else 12))):
        gen.step_any(h, gen.TRAIN_KINDS + gen.ARM_KINDS + gen.WARM_KINDS * 2 + ["query"], True)
    n_prior = len(h.ops)
    old_rows = h.rows
    h.max_rows = draw(st.sampled_from([2, 6, 12]))
    npn = cfg["np"][0] if cfg["np"] else None
    buffer_from = None
    if npn in (None, "Radius", "TreeBandit") and draw(st.integers(0, 9)) == 0:
        # D with zero rows (an empty array with d columns for contextual bandits): a fresh bandit fit on it is untrained
        h.ops.append(["fit", [], [], {"empty": h.d} if h.contextual else None])
        h.rows = 0
        h.fitted = True
    else:
        fits = [i for i, op in enumerate(h.ops) if op[0] == "fit" and len(op[1]) > 0]
        if fits and draw(st.integers(0, 3)) == 0:
            # D arrives in the caller's training buffers: the very ndarray objects of an earlier fit, overwritten in
            # place with the new data (same shape) - D is a new data set all the same
            buffer_from = fits[-1]
            h.fit(n=len(h.ops[buffer_from][1]))
        else:
            h.fit(new_d=draw(st.booleans()))
    for _ in range(draw(st.integers(1, 7 if tier == "quick" else 12))):
        gen.step_any(h, ["partial_fit"] + gen.ARM_KINDS + gen.WARM_KINDS + gen.QUERY_KINDS * 3 + ["cold_arms", "policies"], True)
    return {"config": cfg, "prior": h.ops[:n_prior], "refit": h.ops[n_prior], "cont": h.ops[n_prior + 1:],
            "old_rows": old_rows, "buffer_from": buffer_from}


def strategy(tier, ctx):
    return plan_st(tier)


def fresh_from(b):
    from mabwiser.mab import MAB
    return MAB(list(b.arms), b.learning_policy, b.neighborhood_policy, b.seed, b.n_jobs, b.backend)


def evaluate(plan, ctx):
    cfg = plan["config"]
    b = ops.build(cfg)
    j = plan.get("buffer_from")
    bufs = None
    if plan.get("prior_may_fail"):
        for i, op in enumerate(plan["prior"]):
            o = ops.apply_op(b, op)
            if ops.is_exc(o) and i not in plan["prior_may_fail"]:
                raise Violation("unexpected_exception", "prior history op %d %s raised %s" % (i, op[0], ops.short(o)),
                                bucket="unexpected_exception:%s:%s" % (op[0], o[1]))
    elif j is None:
        twin.must_succeed(b, plan["prior"], "prior history")
    else:
        twin.must_succeed(b, plan["prior"][:j], "prior history")
        op, re = plan["prior"][j], plan["refit"]
        bufs = [np.array(op[1], dtype=np.array(list(op[1]) + list(re[1])).dtype), np.array(op[2], dtype=float),
                np.array(op[3], dtype=float) if op[3] is not None else None]
        try:
            b.fit(bufs[0], bufs[1], bufs[2]) if bufs[2] is not None else b.fit(bufs[0], bufs[1])
        except Exception as e:
            raise Violation("unexpected_exception", "prior fit on ndarray buffers raised %r" % (e,),
                            bucket="unexpected_exception:fit:" + type(e).__name__)
        twin.must_succeed(b, plan["prior"][j + 1:], "prior history")
    try:
        f = fresh_from(b)
    except Exception as e:
        raise Violation("rebuild", "constructing a fresh bandit from the public properties raised %r" % (e,))
    mode = streams.align(b, f, normalise=False)
    empty = len(plan["refit"][1]) == 0
    if bufs is None:
        twin.run_both(b, f, [plan["refit"]], "refit_vs_fresh", "re-fitted bandit", "fresh bandit", allow_exc=empty)
    else:
        re = plan["refit"]
        bufs[0][...] = np.array(re[1], dtype=bufs[0].dtype)
        bufs[1][...] = np.array(re[2], dtype=float)
        if bufs[2] is not None:
            bufs[2][...] = np.array(re[3], dtype=float)
        outs = []
        for m, args in ((b, bufs), (f, [x.copy() if x is not None else None for x in bufs])):
            try:
                m.fit(args[0], args[1], args[2]) if args[2] is not None else m.fit(args[0], args[1])
                outs.append(None)
            except Exception as e:
                outs.append(ops.Exc(e))
        if outs[0] is not None or outs[1] is not None:
            raise Violation("unexpected_exception", "fit on the overwritten buffers: re-fitted bandit %r, fresh bandit "
                            "%r" % (outs[0], outs[1]), bucket="unexpected_exception:fit:buffers")
    twin.run_both(b, f, plan["cont"], "refit_vs_fresh", "re-fitted bandit", "fresh bandit", start=1, allow_exc=empty)
    kinds = [op[0] for op in plan["prior"]]
    nt = any(k in ops.TRAIN_OPS for k in kinds) and any(
        k in ("add_arm", "remove_arm", "warm_start") for k in kinds) or kinds.count("partial_fit") + kinds.count(
        "fit") >= 2
    ev = twin.pair_events(cfg) + ["align=" + mode]
    if empty:
        ev.append("D_empty")
    if bufs is not None:
        ev.append("D_in_reused_buffers")
    if plan.get("prior_may_fail"):
        ev.append("prior_training_call_failed_part_way")
        nt = True
    if len(plan["refit"][1]) < plan["old_rows"]:
        ev.append("D_shorter_than_history")
    if plan["refit"][3] is not None and not empty and plan["prior"] and any(
            op[0] in ops.TRAIN_OPS and op[3] is not None and len(op[3][0]) != len(plan["refit"][3][0])
            for op in plan["prior"]):
        ev.append("D_other_column_count")
    if "warm_start" in kinds:
        ev.append("prior_warm_start")
    return Result(nt, ev)


SUBCHECKS = [SubCheck("refit", strategy, evaluate, quick=5000, thorough=40000)]
KNOWN = {}

MANIFEST = {
    "level": "exploration",
    "technique": "property-based testing: generated histories (Hypothesis), differential twin (re-fitted bandit vs "
                 "freshly constructed bandit fit on the same data from the same random-stream position)",
    "design_ref": "DESIGN.md section 4, C07",
    "text": "For generated prior histories and new data sets D over every policy pair, the re-fitted bandit and a "
            "fresh bandit built through the public constructor must agree exactly on a generated continuation. "
            "Search, not proof.",
    "note": "Trusted: MAB's constructor and public properties to build the fresh twin; vlib/streams.py to copy "
            "stream positions.",
}
