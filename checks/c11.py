"""C11 - LSHNearest neighbourhoods are the sign-random-projection collisions."""
import numpy as np
from hypothesis import strategies as st

from vlib import gen, ops, streams, twin
from vlib.runner import Result, SubCheck, Violation

PROPERTY = "C11"
LEVEL = "exploration"
RULE = ("One case in ten uses wide sparse contexts (the features sit in a few of 101 / 128 / 300 columns) with queries that are non-zero in columns that are zero in the whole history. "
        "LSHNearest configs (n_dimensions 1..6 mostly, n_tables 1..4, seeds, d 1..5, n_jobs 1..3 for hashing), history fit "
        "+ 0..3 partial_fit with drawn early queries in between, deterministic learning policies and (through the per-row "
        "seed) randomised ones; n_dimensions also drawn from {8, 16, 31..33, 40, 52..54, 64}. Queries: stored rows "
        "(from fit and from partial_fit), 2^k * stored row, c * stored row (c > 0), the zero row, random rows. "
        "Oracle: hyperplanes read from mab._imp.table_to_plane; neighbourhood(q) = stored rows sharing q's sign "
        "pattern under at least one table; expectations = fresh bandit (same learning policy) fit on exactly these "
        "rows, or all NaN when empty; a stored / positively scaled stored query must contain its own row; planes "
        "unchanged by partial_fit; metamorphic: predict_expectations(2^k X) == predict_expectations(X). "
        "Non-trivial: a query whose only collisions are rows added by a partial_fit, or a scaled stored row.")
ASSUMPTIONS = [
    "a projection within 1e-12*|x||w| of zero but not exactly zero makes the case ambiguous: skipped and counted",
    "sign patterns are recomputed by the check from the fitted hyperplanes (numpy dot > 0), tables compared as "
    "boolean tuples rather than by the library's integer code",
    "exactly-summable rewards, so the library's set order of neighbour indices cannot change a sum",
]
NT_FLOOR = 0.2


@st.composite
def plan_st(draw, tier):
    kind, arms = draw(gen.arms_st(("int", "str"), 1, 4))
    if draw(st.integers(0, 2)):
        lp = draw(gen.lp_st(["EpsilonGreedy", "UCB1", "LinUCB"], arms, deterministic=True))
    else:   # randomised policies, reproduced through the per-row seed
        lp = draw(gen.lp_st(["EpsilonGreedy", "Softmax", "Popularity", "ThompsonSampling", "Random", "LinGreedy",
                             "LinTS"], arms))
    nj = draw(st.sampled_from([1, 1, 1, 2, 3]))
    cfg = {"arms": arms, "lp": lp,
           "np": ["LSHNearest", {"n_dimensions": draw(st.sampled_from([1, 2, 3, 4, 5, 6, 1, 2, 3, 4, 5, 6, 8, 16, 31,
                                                                       32, 33, 40, 52, 53, 54, 64])),
                                 "n_tables": draw(st.integers(1, 4))}],
           "seed": draw(st.integers(0, 2 ** 20)), "n_jobs": nj, "backend": "threading" if nj > 1 else None,
           "arm_kind": kind}
    h = gen.History(draw, cfg, grid="int", d=draw(st.integers(1, 5)), max_rows=8, exact_only=True)
    h.fit()
    for _ in range(draw(st.integers(0, 3))):
        h.partial_fit()
    stored = [row for op in h.ops for row in op[3]]
    queries = []
    for _ in range(draw(st.integers(1, 5))):
        kind_q = draw(st.sampled_from(["stored", "stored_last", "pow2", "scaled", "zero", "random"]))
        if kind_q == "stored":
            i = draw(st.integers(0, len(stored) - 1))
            queries.append(["stored", i, list(stored[i])])
        elif kind_q == "stored_last":
            i = draw(st.integers(len(stored) - len(h.ops[-1][3]), len(stored) - 1))
            queries.append(["stored", i, list(stored[i])])
        elif kind_q == "pow2":
            i = draw(st.integers(0, len(stored) - 1))
            c = draw(st.sampled_from([2.0, 4.0, 0.5, 1024.0, 0.125, 2.0 ** -200, 2.0 ** 200]))
            queries.append(["scaled", i, [c * v for v in stored[i]]])
        elif kind_q == "scaled":
            i = draw(st.integers(0, len(stored) - 1))
            c = draw(st.sampled_from([3.0, 0.1, 1.7, 1e6, 1e-3, 1e-10, 1e-12, 1e-60, 1e-100, 1e60, 1e100]))
            queries.append(["scaled", i, [c * v for v in stored[i]]])
        elif kind_q == "zero":
            queries.append(["zero", -1, [0] * h.d])
        else:
            queries.append(["random", -1, draw(st.lists(st.integers(-4, 4), min_size=h.d, max_size=h.d))])
    if draw(st.integers(0, 9)) == 0:
        # wide, sparse contexts (indicator features of a vocabulary): the drawn features sit in a few of more than a
        # hundred columns, every other column is zero in the whole history - and some queries are non-zero exactly there
        width = draw(st.sampled_from([101, 128, 300]))
        pos = draw(st.lists(st.integers(0, width - 1), min_size=h.d, max_size=h.d, unique=True))

        def emb(row):
            out = [0] * width
            for p_, v in zip(pos, row):
                out[p_] = v
            return out
        for op in h.ops:
            op[3] = [emb(r) for r in op[3]]
        stored = [emb(r) for r in stored]
        queries = [[k, i, emb(q)] for k, i, q in queries]
        for _ in range(draw(st.integers(1, 3))):
            q = list(stored[draw(st.integers(0, len(stored) - 1))])
            for _ in range(draw(st.integers(1, 2))):
                q[draw(st.integers(0, width - 1))] += draw(st.sampled_from([1, -1, 3, 5, -2]))
            queries.append(["random", -1, q])
    early = [i for i in range(len(h.ops) - 1) if draw(st.booleans())]
    return {"config": cfg, "ops": h.ops, "queries": queries, "query_after": early}


def strategy(tier, ctx):
    return plan_st(tier)


def signature(x, plane):
    """(sign pattern as a tuple of bools, ambiguous?)"""
    x = np.asarray(x, dtype=float)
    proj = x @ plane
    scale = np.linalg.norm(x) * np.linalg.norm(plane, axis=0)
    amb = bool(np.any((proj != 0) & (np.abs(proj) < 1e-12 * np.maximum(scale, 1e-300))))
    return tuple(bool(b) for b in (proj > 0)), amb


def fresh_expectations(cfg, dec, rew, cx, q, seed):
    from mabwiser.mab import MAB
    m = MAB(list(cfg["arms"]), ops.make_lp(cfg["lp"]), None, seed)
    if cfg["lp"][0] in ops.LINEAR:
        m.fit(dec, rew, cx)
        return ops.canon_expectations(m.predict_expectations([q]))
    m.fit(dec, rew)
    return ops.canon_expectations(m.predict_expectations())


def evaluate(plan, ctx):
    cfg = plan["config"]
    mab = ops.build(cfg)
    dec, rew, cx, origin = [], [], [], []
    planes0 = None
    for i, op in enumerate(plan["ops"]):
        o = ops.apply_op(mab, op)
        if ops.is_exc(o):
            raise Violation("unexpected_exception", "op %d %s raised %s" % (i, op[0], ops.short(o)))
        dec += op[1]
        rew += op[2]
        cx += op[3]
        origin += [i] * len(op[1])
        if i in plan.get("query_after", []):
            # an early query (its value is checked by the final pass on the complete history; here it only has to
            # succeed) - a cache it fills must not hide rows hashed later
            for _, _, q0 in plan["queries"][:2]:
                oq = ops.apply_op(mab, ["predict_expectations", [q0]])
                if ops.is_exc(oq):
                    raise Violation("unexpected_exception", "early query raised %s" % ops.short(oq))
        planes = {t: np.array(p, dtype=float) for t, p in mab._imp.table_to_plane.items()}
        if planes0 is None:
            planes0 = planes
            nt_, nd_ = cfg["np"][1]["n_tables"], cfg["np"][1]["n_dimensions"]
            if len(planes) != nt_ or any(p.shape != (len(op[3][0]), nd_) for p in planes.values()):
                raise Violation("plane_shape", "expected %d planes of shape (%d, %d), got %r"
                                % (nt_, len(op[3][0]), nd_, {t: p.shape for t, p in planes.items()}))
        else:
            for t in planes0:
                if not np.array_equal(planes0[t], planes[t]):
                    raise Violation("planes_changed", "hyperplanes of table %r changed in op %d (%s)" % (t, i, op[0]))
    arms = list(cfg["arms"])
    ev = ["lp=" + cfg["lp"][0], "n_jobs=%d" % cfg["n_jobs"], "tables=%d" % cfg["np"][1]["n_tables"]]
    linear = cfg["lp"][0] in ops.LINEAR
    deterministic = twin.is_deterministic(cfg)
    tol = 1e-9 if linear else 0.0
    nt = False
    skipped = False
    sig_rows = {}
    amb_rows = False
    for t, P in planes0.items():
        sig_rows[t] = []
        for x in cx:
            s, a = signature(x, P)
            amb_rows = amb_rows or a
            sig_rows[t].append(s)
    if amb_rows:
        return Result(False, ev + ["ambiguous_stored_row"], skipped=True)
    last_op = len(plan["ops"]) - 1
    for kind_q, idx, q in plan["queries"]:
        amb = False
        sel = set()
        for t, P in planes0.items():
            s, a = signature(q, P)
            amb = amb or a
            for i, si in enumerate(sig_rows[t]):
                if si == s:
                    sel.add(i)
        if amb:
            skipped = True
            ev.append("ambiguous_query")
            continue
        sel = sorted(sel)
        if kind_q in ("stored", "scaled") and idx not in sel:
            # cannot happen with exact sign patterns; guards the oracle itself
            skipped = True
            ev.append("oracle_self_miss")
            continue
        row_seed = int(streams.clone_rng(mab._rng).randint(np.iinfo(np.int32).max, size=1)[0])
        out = ops.apply_op(mab, ["predict_expectations", [q]])
        if ops.is_exc(out):
            raise Violation("unexpected_exception", "predict_expectations(%r) raised %s" % (q, ops.short(out)),
                            bucket="unexpected_exception:" + out[1])
        got = out[1]
        if [k for k, _ in got] != arms:
            raise Violation("keys", "keys %r, arms %r" % ([k for k, _ in got], arms))
        if not sel:
            ev.append("empty_collision_set")
            if not all(v != v for _, v in got):
                raise Violation("empty_not_nan", "%s query %r collides with no stored row but got %s"
                                % (kind_q, q, ops.short(got)))
            continue
        want = fresh_expectations(cfg, [dec[i] for i in sel], [rew[i] for i in sel], [cx[i] for i in sel], q,
                                  row_seed)
        if not ops.same(got, want, rtol=tol, atol=tol):
            raise Violation("collision_set_value",
                            "%s query %r (row %d): library %s, oracle collision set %r of %d stored rows -> %s"
                            % (kind_q, q, idx, ops.short(got), sel, len(cx), ops.short(want)))
        if kind_q == "scaled":
            nt = True
            ev.append("scaled_stored_row")
        if len(plan["ops"]) > 1 and all(origin[i] >= 1 for i in sel):
            nt = True
            ev.append("collides_only_with_partial_fit_rows")
        # metamorphic: scaling the query by a power of two never changes the result
        if not linear and deterministic:
            o2 = ops.apply_op(mab, ["predict_expectations", [[4.0 * v for v in q]]])
            if not ops.outputs_equal(out, o2):
                raise Violation("scale_invariance", "query %r: %s, 4*query: %s" % (q, ops.short(out), ops.short(o2)))
    return Result(nt, ev, skipped)


# ---- one training call with tens of thousands of rows (a tiled block): paths that only open up for large calls ------

@st.composite
def big_plan_st(draw, tier):
    kind, arms = draw(gen.arms_st(("int", "str"), 2, 4))
    lp = draw(st.sampled_from([["EpsilonGreedy", {"epsilon": 0}], ["UCB1", {"alpha": 1}]]))
    nj = draw(st.sampled_from([1, 1, 2]))
    d = draw(st.integers(1, 3))
    cfg = {"arms": arms, "lp": lp,
           "np": ["LSHNearest", {"n_dimensions": draw(st.sampled_from([2, 3, 4, 6, 8])),
                                 "n_tables": draw(st.integers(1, 3))}],
           "seed": draw(st.integers(0, 2 ** 20)), "n_jobs": nj, "backend": "threading" if nj > 1 else None,
           "arm_kind": kind}
    nb = draw(st.sampled_from([5, 7, 9, 11]))            # block length (odd: no power of two divides the period)
    nz = st.integers(-4, 4).filter(lambda v: v != 0)
    block_cx = [[draw(nz)] + [draw(st.integers(-4, 4)) for _ in range(d - 1)] for _ in range(nb)]
    block_dec = [draw(st.sampled_from(arms)) for _ in range(nb)]
    block_rew = [draw(st.integers(-8, 8)) for _ in range(nb)]
    total = draw(st.sampled_from([2 ** 16 + 1, 2 ** 16 + 4000, 70000, 2 ** 17 + 3]))
    times = -(-total // nb)
    in_fit = draw(st.booleans())        # the large call is the fit, or a partial_fit after a small fit
    queries = [list(block_cx[draw(st.integers(0, nb - 1))]) for _ in range(draw(st.integers(1, 3)))]
    return {"config": cfg, "block": [block_dec, block_rew, block_cx], "times": times, "in_fit": in_fit,
            "queries": queries}


def big_strategy(tier, ctx):
    return big_plan_st(tier)


def evaluate_big(plan, ctx):
    from mabwiser.mab import MAB
    cfg = plan["config"]
    bd, br, bc = plan["block"]
    t = plan["times"]
    mab = ops.build(cfg)
    if plan["in_fit"]:
        history = [["fit_tiled", bd, br, bc, t]]
    else:
        history = [["fit", bd, br, bc], ["partial_fit_tiled", bd, br, bc, t]]
    for op in history:
        o = ops.apply_op(mab, op)
        if ops.is_exc(o):
            raise Violation("unexpected_exception", "%s raised %s" % (op[0], ops.short(o)),
                            bucket="unexpected_exception:" + o[1])
    reps = t + (0 if plan["in_fit"] else 1)
    X = np.tile(np.asarray(bc, dtype=float), (reps, 1))
    dec = np.asarray(list(bd) * reps)
    rew = np.asarray(list(br) * reps, dtype=float)
    planes = {k: np.array(p, dtype=float) for k, p in mab._imp.table_to_plane.items()}
    ev = ["rows=%d" % len(X), "n_jobs=%d" % cfg["n_jobs"], "large_call=" + ("fit" if plan["in_fit"] else "partial_fit")]
    for q in plan["queries"]:
        mask = np.zeros(len(X), dtype=bool)
        for P in planes.values():
            proj, pq = X @ P, np.asarray(q, dtype=float) @ P
            if np.any(np.abs(proj) < 1e-9) or np.any(np.abs(pq) < 1e-9):
                return Result(False, ev + ["ambiguous_projection"], skipped=True)
            mask |= np.all((proj > 0) == (pq > 0), axis=1)
        out = ops.apply_op(mab, ["predict_expectations", [q]])
        if ops.is_exc(out):
            raise Violation("unexpected_exception", "predict_expectations(%r) raised %s" % (q, ops.short(out)),
                            bucket="unexpected_exception:" + out[1])
        fresh = MAB(list(cfg["arms"]), ops.make_lp(cfg["lp"]), None, cfg["seed"])
        fresh.fit(dec[mask], rew[mask])
        want = ops.canon_expectations(fresh.predict_expectations())
        if not ops.same(out[1], want, rtol=1e-12, atol=1e-12):
            raise Violation("collision_set_value", "query %r after one call with %d rows: library %s, the policy "
                            "trained on the %d colliding rows gives %s" % (q, len(X), ops.short(out[1]),
                                                                           int(mask.sum()), ops.short(want)),
                            bucket="collision_set_value:large_call")
    return Result(True, ev)


SUBCHECKS = [SubCheck("collisions", strategy, evaluate, quick=5000, thorough=80000),
             SubCheck("bigcall", big_strategy, evaluate_big, quick=48, thorough=480, shrink=False)]
KNOWN = {}

MANIFEST = {
    "level": "exploration",
    "technique": "property-based testing: generated LSH configurations, histories and engineered queries (Hypothesis) "
                 "vs a sign-pattern collision oracle computed from the fitted hyperplanes; scale metamorphic relation",
    "design_ref": "DESIGN.md section 4, C11",
    "text": "For generated configurations, histories (fit + partial_fit*) and queries (stored, scaled, zero, random "
            "rows) the expectations must equal those of the learning policy trained on exactly the oracle collision "
            "set; planes must not change after fit; scaling a query must not change the result. Search, not proof.",
    "note": "Trusted: the hyperplanes the bandit exposes in table_to_plane (named by the property) and numpy's dot "
            "product for the oracle's sign patterns; near-zero projections are skipped.",
}
