"""C08 - outputs always range over exactly the current arms, one result per context."""
import copy

from hypothesis import strategies as st

from vlib import gen, ops
from vlib import campaign
from vlib.runner import Result, SubCheck, Violation

PROPERTY = "C08"
LEVEL = "exploration"
RULE = ("Histories may pass through an empty arm list (every arm removed before new ones are added); catalogues of up to 1030 arms. "
        "Model-based generated histories of add_arm / remove_arm / fit / partial_fit / warm_start / predict / "
        "predict_expectations over every learning x neighbourhood policy pair, int / float / str / mixed labels, "
        "n_jobs 1..4, 19, 40 (threading; more workers than processors included), queries with 1..33 rows, Series queries, refits with another number of columns (context-free bandits with and without contexts), arm "
        "changes and queries before the first fit included. Invariant after every step: mab.arms equals the model's "
        "arm list; predict returns members of it; predict_expectations keys equal it in order; m>1 rows give a list "
        "of m, else a single result; for deterministic policies result i of a batch equals the single-row result. "
        "Non-trivial: a prediction issued after an arm change that itself follows a training call.")
ASSUMPTIONS = [
    "no_nhood_prob_of_arm lists are only generated for histories without arm changes (positional list, undefined "
    "after add/remove)",
    "before the first fit the documented Exception('Call fit before prediction') is the accepted outcome",
    "warm_start is generated only when at least two arms have non-zero feature vectors (a cosine distance exists)",
    "never removes the last arm; every fit has >= k rows (KNearest) / >= n_clusters rows (Clusters)",
]
NT_FLOOR = 0.15

DETERMINISTIC = {("EpsilonGreedy", 0), ("UCB1", None), ("LinUCB", None), ("LinGreedy", 0)}


def is_det(cfg):
    name, p = cfg["lp"]
    if name in ("UCB1", "LinUCB"):
        return True
    if name in ("EpsilonGreedy", "LinGreedy"):
        return p.get("epsilon", 0.1) == 0
    return False


@st.composite
def plan_st(draw, tier):
    cfg = draw(gen.config_st(many_arms_ok=True, arm_kinds=("int", "str", "float", "mix"), max_arms=4, with_binarizer=True, scale_ok=True,
                             n_jobs_choices=(1, 1, 1, 1, 1, 1, 1, 2, 3, 4, 19, 40), defaults_ok=True,
                             metrics=gen.SAFE_METRICS))
    h = gen.History(draw, cfg, max_rows=8, series_queries=True, refit_new_d=True)
    kinds = gen.TRAIN_KINDS + gen.ARM_KINDS * 2 + gen.QUERY_KINDS * 3 + gen.WARM_KINDS
    for _ in range(draw(st.sampled_from([0, 0, 0, 1, 2]))):
        gen.step_any(h, gen.ARM_KINDS + gen.WARM_KINDS, True)
    for _ in range(draw(st.integers(1, 14 if tier == "quick" else 25))):
        gen.step_any(h, kinds, True)
        if h.has_prob_list and h.fitted and len(h.arms) > 1 and h._free_labels() and draw(st.integers(0, 5)) == 0:
            # a bandit constructed with no_nhood_prob_of_arm: the positional list has a meaning again once a removed
            # arm has been replaced (same number of arms) - the draw for rows without neighbours ranges over the
            # current arms
            a = draw(st.sampled_from(h.arms))
            h.arms.remove(a)
            h.removed.append(a)
            h.ops.append(["remove_arm", a])
            new = draw(st.sampled_from(h._free_labels()))
            h.arms.append(new)
            h.ops.append(["add_arm", new])
            for _ in range(draw(st.integers(1, 3))):
                h.predict()
        if h.fitted and h.can_add() and draw(st.integers(0, 11)) == 0:
            # every arm the bandit has is replaced by a new one: queries answered by arms without any trained state
            # (no tree, no regression rows, no observations), the context width known only from the last fit
            old = list(h.arms)
            drain_first = len(old) <= 8 and not h.has_prob_list and draw(st.booleans())
            if not drain_first:
                h.add_arm()
            for a in old:
                h.arms.remove(a)
                h.removed.append(a)
                h.ops.append(["remove_arm", a])
            if drain_first:
                # ... the other way round: the last arm is removed before the first new one is added (for a moment the
                # bandit has no arm at all)
                for _ in range(draw(st.integers(1, 2))):
                    if h._free_labels():
                        h.add_arm()
            for _ in range(draw(st.integers(1, 3))):
                h.query()
    return {"config": cfg, "ops": h.ops, "family": h.family, "d": h.d}


def strategy(tier, ctx):
    return plan_st(tier)


def n_rows(q):
    return None if q is None else len(q)


def evaluate(plan, ctx):
    cfg = plan["config"]
    mab = ops.build(cfg)
    arms = list(cfg["arms"])
    fitted = False
    trained_then_changed = False
    nontrivial = False
    ev = {"lp=" + cfg["lp"][0], "np=" + (cfg["np"][0] if cfg["np"] else "none"), "arms=" + cfg["arm_kind"],
          "n_jobs=%d" % cfg["n_jobs"]}
    prev = None
    for i, op in enumerate(plan["ops"]):
        k = op[0]
        series_rows = None
        if k.endswith("_series"):
            # a pandas Series query: one row per value for one-feature data, a single row otherwise
            series_rows = op[2]
            k = k[:-7]
            ev.add("series_query")
        single_twin = None
        if k in ("predict", "predict_expectations") and fitted and is_det(cfg) and op[1] is not None \
                and series_rows is None and len(op[1]) > 1 and not (k == "predict" and cfg["np"] and cfg["np"][0] in ("Radius", "LSHNearest")):
            # (predict on an empty neighbourhood draws an arm at random: excluded from the row-order comparison)
            single_twin = copy.deepcopy(mab)
        out = ops.apply_op(mab, op)
        if k in ("predict", "predict_expectations") and not fitted:
            if not (ops.is_exc(out) and out[1] == "Exception" and "fit before" in out[2]):
                raise Violation("before_fit", "step %d: %s before fit gave %s" % (i, k, ops.short(out)))
            ev.add("query_before_fit")
            continue
        if ops.is_exc(out):
            raise Violation("unexpected_exception", "step %d %s raised %s" % (i, k, ops.short(out)),
                            bucket="unexpected_exception:%s:%s" % (k, out[1]))
        if k in ("fit", "partial_fit"):
            fitted = True
            trained_then_changed = False
        elif k == "add_arm":
            arms.append(op[1])
            trained_then_changed = trained_then_changed or fitted
        elif k == "remove_arm":
            arms.remove(op[1])
            trained_then_changed = trained_then_changed or fitted
        got_arms = [ops.py(a) for a in mab.arms]
        if got_arms != arms or [type(a) for a in got_arms] != [type(a) for a in arms]:
            raise Violation("arms_list", "step %d after %s: mab.arms %r, expected %r" % (i, k, got_arms, arms))
        if k in ("predict", "predict_expectations"):
            m = n_rows(op[1]) if series_rows is None else series_rows
            want_list = m is not None and m > 1
            if (out[0] == "L") != want_list:
                raise Violation("result_shape", "step %d %s with %r rows returned %s"
                                % (i, k, m, "a list" if out[0] == "L" else "a single result"))
            rows = out[1] if out[0] == "L" else [out[1]]
            if want_list and len(rows) != m:
                raise Violation("result_count", "step %d %s with %d rows returned %d results" % (i, k, m, len(rows)))
            for r in rows:
                if k == "predict":
                    if not any(r == a for a in arms):
                        raise Violation("predict_member", "step %d: predicted %r, arms %r" % (i, r, arms))
                else:
                    keys = [kv[0] for kv in r]
                    if keys != arms:
                        raise Violation("expectation_keys", "step %d: keys %r, arms %r" % (i, keys, arms))
            if trained_then_changed:
                nontrivial = True
                ev.add("query_after_change_after_training")
            if prev is not None:
                ev.add("%s->%s" % (prev, "query"))
            if single_twin is not None:
                # row order: for deterministic policies result i equals the result of row i asked alone
                for j, row in enumerate(op[1]):
                    t = copy.deepcopy(single_twin)
                    o1 = ops.apply_op(t, [k, [row]])
                    if ops.is_exc(o1) or not ops.same(o1[1], rows[j], rtol=1e-9, atol=1e-9):
                        raise Violation("row_order", "step %d %s: row %d of the batch gave %s, alone %s"
                                        % (i, k, j, ops.short(rows[j]), ops.short(o1)))
                ev.add("row_order_checked")
        if k not in ("predict", "predict_expectations"):
            prev = k
    return Result(nontrivial, sorted(ev))


SUBCHECKS = [
    SubCheck("history", strategy, evaluate, quick=6000, thorough=50000),
    # thorough tier only: coverage-guided campaign (atheris) over the same generator and oracle
    SubCheck("atheris", strategy, evaluate, 0, 0, external=campaign.atheris_external("C08", "history")),
]
KNOWN = {}

MANIFEST = {
    "level": "exploration",
    "technique": "property-based testing: model-based generated call histories (Hypothesis), invariant checked "
                 "after every step",
    "design_ref": "DESIGN.md section 4, C08",
    "text": "Generated histories interleaving arm changes, training, warm start and queries over every policy pair "
            "and label type; after every step the arm list, the membership of predictions, the key order of "
            "expectations and the number / shape of results are checked against a model of the arm list. Search, "
            "not proof.",
    "note": "Trusted: the harness' model of the arm list (append on add, remove on remove). Inputs restricted to "
            "calls the documentation accepts (see assumptions in the evidence).",
}
