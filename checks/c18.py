"""C18 - results are independent of the data container type; inputs are never modified."""
import copy
import pickle

import numpy as np
import pandas as pd
from hypothesis import strategies as st

from vlib import gen, ops, twin
from vlib.runner import Result, SubCheck, Violation

PROPERTY = "C18"
LEVEL = "exploration"
RULE = ("Decisions also as float32 / int16 / int32 arrays when every label is exactly representable in that type. "
        "A generated history over any policy pair is executed twice: once with every argument as plain Python lists, "
        "once with each argument rendered in a drawn container - decisions: list / ndarray / Series with a non-default "
        "index; rewards: list / int64, int32, int16, int8, bool, float64, float32 ndarray / Series (also of int8); contexts (training and query): list of lists / "
        "ndarray C-order, Fortran-order, strided view, transposed view, int64 / int32 / int8 / float64 / float32 dtype / DataFrame / Series (one "
        "feature many rows, or one row many features). Outputs must be identical. Byte snapshots (pickle; for arrays bytes, dtype, shape, strides and the writeable / contiguity flags) of every "
        "caller object - data containers, the arms list, the policy tuples with their dict / list members, the "
        "arm-feature dictionary - taken before and after each call must be equal, and appending to the caller's arms "
        "list after construction must not affect the bandit. Non-trivial: at least one argument needed conversion "
        "(non-contiguous, Fortran, Series or DataFrame).")
ASSUMPTIONS = [
    "a Series as query contexts for a context-free bandit is not generated (ambiguous between one row and one "
    "column; the library resolves it from a stored context history such a bandit does not have)",
    "Series contexts are only generated where the documented disambiguation applies: one feature and several rows, "
    "or a single row",
    "integer dtypes are only used for data whose values are integral",
]
NT_FLOOR = 0.3


def feasible_ctx_kinds(rows, for_query, contextual_series_ok):
    n = len(rows)
    d = len(rows[0])
    kinds = ["list", "ndarray_c", "ndarray_f", "strided", "transposed", "dataframe", "ndarray_float"]
    if all(float(v).is_integer() for r in rows for v in r):
        kinds += ["ndarray_int", "ndarray_int8", "ndarray_int32"]
        if all(v >= 0 for r in rows for v in r):
            kinds += ["ndarray_uint8", "ndarray_uint16"]
    kinds.append("ndarray_float32")       # grid values are exactly representable
    if contextual_series_ok and ((d == 1) or (n == 1 and d > 1)):
        kinds.append("series")
    return kinds


def render_ctx(rows, kind):
    if rows is None:
        return None
    if kind == "list":
        return [list(r) for r in rows]
    a = np.array(rows)
    if kind == "ndarray_c":
        return np.ascontiguousarray(a)
    if kind == "ndarray_f":
        return np.asfortranarray(a)
    if kind == "ndarray_int":
        return np.array(rows, dtype=np.int64)
    if kind == "ndarray_float":
        return np.array(rows, dtype=np.float64)
    if kind in ("ndarray_int8", "ndarray_int32", "ndarray_float32", "ndarray_uint8", "ndarray_uint16"):
        return np.array(rows, dtype=getattr(np, kind.split("_")[1]))
    if kind == "strided":
        big = np.zeros((a.shape[0] * 2, a.shape[1] * 2), dtype=a.dtype)
        big[::2, ::2] = a
        return big[::2, ::2]
    if kind == "transposed":
        return np.ascontiguousarray(a.T).T
    if kind == "dataframe":
        return pd.DataFrame(a, index=range(50, 50 + a.shape[0]), columns=["f%d" % i for i in range(a.shape[1])])
    if kind == "series":
        flat = [r[0] for r in rows] if len(rows[0]) == 1 else list(rows[0])
        return pd.Series(flat, index=range(200, 200 + len(flat)))
    raise ValueError(kind)


def render_vec(v, kind):
    if kind == "list":
        return list(v)
    if kind == "ndarray":
        return np.array(v)
    if kind == "ndarray_int":
        return np.array(v, dtype=np.int64)
    if kind == "ndarray_float":
        return np.array(v, dtype=np.float64)
    if kind in ("ndarray_int8", "ndarray_int16", "ndarray_int32", "ndarray_float32", "ndarray_bool"):
        return np.array(v, dtype=getattr(np, kind.split("_")[1] if kind != "ndarray_bool" else "bool_"))
    if kind == "series_int8":
        return pd.Series(np.array(v, dtype=np.int8), index=range(100, 100 + len(v)))
    if kind == "series":
        return pd.Series(list(v), index=range(100, 100 + len(v)))
    raise ValueError(kind)


@st.composite
def plan_st(draw, tier):
    cfg = draw(gen.config_st(metrics=gen.SAFE_METRICS, arm_kinds=("int", "str", "float"), max_arms=4, with_binarizer=True, scale_ok=True,
                             defaults_ok=True))
    grid = draw(st.sampled_from(["int", "half", "nonneg", "mixed"]))
    # (whole-number training contexts with fractional queries, one time in three: an integer history must not decide
    # how a float query is read)
    qgrid = "half" if grid in ("int", "nonneg") and draw(st.integers(0, 2)) == 0 else None
    h = gen.History(draw, cfg, max_rows=7, exact_only=True, grid=grid, query_grid=qgrid)
    h.fit() if draw(st.integers(0, 3)) else h.partial_fit()
    for _ in range(draw(st.integers(1, 7))):
        gen.step_any(h, gen.TRAIN_KINDS + gen.ARM_KINDS + gen.QUERY_KINDS * 3 + gen.WARM_KINDS)
    h.query()
    contextual = ops.is_contextual(cfg)
    forced_frames = set()
    if contextual and h.d >= 2 and draw(st.integers(0, 3)) == 0:
        # consecutive queries of one shape, each handed over as a temporary DataFrame that is gone before the next one
        # is built (whatever the bandit remembers about a frame must not outlive it)
        m = draw(st.integers(2, 4))
        for _ in range(draw(st.integers(2, 3))):
            forced_frames.add(len(h.ops))
            h.ops.append([draw(st.sampled_from(["predict", "predict_expectations"])),
                          draw(gen.contexts_st(m, h.d, h.grid))])
    # decisions in a narrower array type than numpy would pick by itself: float labels as a float32 array, small integer
    # labels as int16 / int32 - only when every label is exactly representable in that type (a float32 array cannot hold
    # the label 0.1 or 2499.99; such an array does not contain "the same decisions" and is not generated)
    labels = list(cfg["arms"]) + [o[1] for o in h.ops if o[0] == "add_arm"]
    narrow_dec = []
    if all(isinstance(a, float) for a in labels) and all(float(np.float32(a)) == a for a in labels):
        narrow_dec = ["ndarray_float32"]
    elif all(isinstance(a, int) and not isinstance(a, bool) and abs(a) < 2 ** 15 for a in labels):
        narrow_dec = ["ndarray_int16", "ndarray_int32"]
    renders = []
    for i_op, op in enumerate(h.ops):
        r = {}
        if i_op in forced_frames:
            renders.append({"ctx": "dataframe"})
            continue
        if op[0] in ops.TRAIN_OPS:
            dk = ["list", "ndarray", "series"]
            if narrow_dec:
                dk += narrow_dec * 2
            r["dec"] = draw(st.sampled_from(dk))
            rk = ["list", "ndarray_float", "series"]
            if all(float(x).is_integer() for x in op[2]):
                rk.append("ndarray_int")
                if all(-100 <= x <= 100 for x in op[2]):      # compact integer dtypes the values fit into
                    rk += ["ndarray_int8", "ndarray_int16", "ndarray_int32", "series_int8"]
            if all(x in (0, 1) for x in op[2]):
                rk.append("ndarray_bool")
            if twin.is_deterministic(cfg):
                # single precision rewards keep the arithmetic in single precision (means are rounded to 24 bits):
                # compared with 1e-5 relative tolerance, and only under deterministic policies because a sampler is
                # not a continuous function of its parameters
                rk.append("ndarray_float32")
            r["rew"] = draw(st.sampled_from(rk))
            if op[3] is not None:
                r["ctx"] = draw(st.sampled_from(feasible_ctx_kinds(op[3], False, True)))
        elif op[0] in ("predict", "predict_expectations") and op[1] is not None:
            r["ctx"] = draw(st.sampled_from(feasible_ctx_kinds(op[1], True, contextual)))
        renders.append(r)
    return {"config": cfg, "ops": h.ops, "renders": renders}


def strategy(tier, ctx):
    return plan_st(tier)


def snap(objs):
    out = []
    for o in objs:
        if isinstance(o, np.ndarray):
            # the flags belong to the caller's object as much as its bytes do (a read-only array breaks the caller's
            # next in-place write)
            out.append(("nd", o.dtype.str, o.shape, o.strides, o.tobytes(), o.flags.writeable, o.flags.c_contiguous,
                        o.flags.f_contiguous))
        elif isinstance(o, (pd.Series, pd.DataFrame)):
            fl = getattr(getattr(o, "values", None), "flags", None)
            out.append(("pd", pickle.dumps(o.to_dict()), list(o.index), str(getattr(o, "dtypes", "")),
                        getattr(fl, "writeable", None)))
        else:
            out.append(("py", pickle.dumps(o, protocol=4)))
    return out


def evaluate(plan, ctx):
    from mabwiser.mab import MAB
    cfg = plan["config"]
    a = ops.build(cfg)
    # the rendered bandit is built here so that the caller objects stay in our hands
    arms_obj = list(cfg["arms"])
    lp_obj = ops.make_lp(cfg["lp"])
    np_obj = ops.make_np(cfg.get("np"))
    members = [arms_obj, tuple(lp_obj), tuple(np_obj) if np_obj is not None else None]
    default_tree = cfg.get("np") and cfg["np"][0] == "TreeBandit" and cfg["np"][1].get("_default")
    s0 = snap(members)
    b = MAB(arms_obj, lp_obj, np_obj, cfg["seed"])
    if snap(members) != s0:
        raise Violation("caller_object_modified", "MAB(...) modified its arguments: arms %r, learning policy %r, "
                        "neighbourhood policy %r (before: %r)" % (arms_obj, tuple(lp_obj), tuple(np_obj) if np_obj else None,
                                                                   cfg.get("np")),
                        bucket="caller_object_modified:constructor")
    if default_tree:
        from mabwiser.mab import NeighborhoodPolicy
        if NeighborhoodPolicy.TreeBandit().tree_parameters != {}:
            raise Violation("caller_object_modified", "constructing a bandit with the default-constructed TreeBandit() "
                            "changed the shared default: TreeBandit().tree_parameters is now %r"
                            % (NeighborhoodPolicy.TreeBandit().tree_parameters,),
                            bucket="caller_object_modified:constructor")
    arms_obj.append("caller-side-append")          # the bandit's arm list is independent of the caller's
    if any(x == "caller-side-append" for x in b.arms):
        raise Violation("arms_aliased", "appending to the list passed to MAB(...) changed mab.arms to %r" % (b.arms,))
    nt = False
    ev = twin.pair_events(cfg)
    fitted = False
    for i, (op, r) in enumerate(zip(plan["ops"], plan["renders"])):
        oa = ops.apply_op(a, op)
        name = op[0]
        caller = []
        try:
            if name in ops.TRAIN_OPS:
                dec = render_vec(op[1], r["dec"])
                rew = render_vec(op[2], r["rew"])
                caller = [dec, rew]
                if op[3] is not None:
                    cx = render_ctx(op[3], r["ctx"])
                    caller.append(cx)
                    s1 = snap(caller)
                    getattr(b, name)(dec, rew, cx)
                else:
                    s1 = snap(caller)
                    getattr(b, name)(dec, rew)
                ob = None
            elif name in ("predict", "predict_expectations"):
                if op[1] is not None:
                    cx = render_ctx(op[1], r["ctx"])
                    caller = [cx]
                    s1 = snap(caller)
                    ob = ops.canon(name, getattr(b, name)(cx))
                else:
                    s1 = snap(caller)
                    ob = ops.canon(name, getattr(b, name)())
            elif name == "warm_start":
                feats = {k: list(v) for k, v in op[1]}
                caller = [feats]
                s1 = snap(caller)
                b.warm_start(feats, op[2])
                ob = None
            else:
                s1 = snap(caller)
                ob = ops.apply_op(b, op, catch=False)
        except Exception as e:
            ob = ops.Exc(e)
        if caller and snap(caller) != s1:
            raise Violation("caller_object_modified", "op %d %s modified the container it was given (%r)" % (i, name, r),
                            bucket="caller_object_modified:" + name)
        # the caller's containers are temporaries: gone before those of the next call are built
        caller = cx = dec = rew = feats = None
        if ops.is_exc(oa) and not (name in ("predict", "predict_expectations") and not fitted):
            raise Violation("unexpected_exception", "op %d %s with lists raised %s" % (i, name, ops.short(oa)),
                            bucket="unexpected_exception:%s:%s" % (name, oa[1]))
        if name in ops.TRAIN_OPS:
            fitted = True
        f32 = any(rr.get("rew") == "ndarray_float32" for rr in plan["renders"][:i + 1])
        tol = 1e-5 if f32 else 0.0
        same_out = ops.outputs_equal(oa, ob, tol, tol)
        if not same_out and f32 and name == "predict" and not (ops.is_exc(oa) or ops.is_exc(ob)):
            same_out = True       # a prediction may flip when two single-precision expectations are within rounding
            ev.append("float32_predict_not_compared")
        if not same_out:
            raise Violation("container_dependence", "op %d %s rendered as %r: lists gave %s, containers gave %s"
                            % (i, ops.short(op, 100), r, ops.short(oa), ops.short(ob)),
                            bucket="container_dependence:%s" % "+".join(sorted(set(r.values()))))
        for v in r.values():
            if v in ("ndarray_f", "strided", "transposed", "dataframe", "series", "series_int8") or v[-1:].isdigit() \
                    or v == "ndarray_bool":
                nt = True
            ev.append("render=" + v)
    if snap(members[1:]) != s0[1:]:
        raise Violation("caller_object_modified", "policy parameter objects changed during the history",
                        bucket="caller_object_modified:policy")
    return Result(nt, ev)


SUBCHECKS = [SubCheck("containers", strategy, evaluate, quick=6000, thorough=60000)]
KNOWN = {}

MANIFEST = {
    "level": "exploration",
    "technique": "property-based testing: generated histories rendered in generated container types / dtypes / memory "
                 "layouts (Hypothesis), differential twin (all-lists rendering) plus byte snapshots of caller objects",
    "design_ref": "DESIGN.md section 4, C18",
    "text": "Each generated history is run once with plain lists and once with every argument rendered as a drawn "
            "container (ndarray layouts and dtypes, Series, DataFrame); outputs must coincide and no caller object "
            "(data containers, arms list, policy tuples and their dict/list members, arm-feature dict) may change. "
            "Search, not proof.",
    "note": "Trusted: numpy / pandas constructors used to render the containers; pickle / tobytes for snapshots.",
}
