"""C06 - incremental training equals batch training."""
from hypothesis import strategies as st

from vlib import gen, ops, streams, twin
from vlib.runner import Result, SubCheck, Violation

PROPERTY = "C06"
LEVEL = "exploration"
RULE = ("Neighbourhood policies also with a history of more than 1100 rows (first chunk repeated with a drift) followed by small chunks, optionally in a region of their own; catalogues of 520 / 1030 arms now and then. "
        "A generated row sequence (decisions, rewards, contexts) and a composition of it into consecutive chunks "
        "(chunks of one row and chunks missing arms forced with probability 1/2; the first call may be partial_fit). "
        "Twin A: fit(all rows). Twin B: fit(chunk0) then partial_fit(chunk_i). Same constructor arguments; stream "
        "positions copied A -> B; then predict_expectations and predict on generated queries, twice. Policies: every "
        "context-free policy, linear policies with scale=False, and Radius / KNearest / LSHNearest / Clusters over "
        "them. Exact equality with exactly-summable rewards (all policies, draws included); general float rewards "
        "only with deterministic policies, 1e-9 relative (1e-6 for linear), predict compared when the top-two gap "
        "exceeds 100x the tolerance. Non-trivial: >= 2 chunks and (a chunk omits an arm that occurs elsewhere, or "
        "a chunk of one row).")
ASSUMPTIONS = [
    "TreeBandit and scale=True are excluded by the property",
    "bit-for-bit equality is asserted only where float addition cannot reorder results (exactly-summable rewards "
    "on integer-grid contexts)",
    "Clusters: every chunk prefix has >= n_clusters rows; KNearest: the first chunk has >= k rows",
]
NT_FLOOR = 0.3

NPS = [None, None, "Radius", "KNearest", "LSHNearest", "Clusters"]


@st.composite
def plan_st(draw, tier):
    det_only = draw(st.integers(0, 3)) == 0     # general floats are only sound with deterministic policies
    cfg = draw(gen.config_st(many_arms_ok=True, metrics=gen.SAFE_METRICS, nps=NPS, arm_kinds=("int", "str", "float", "mix"), max_arms=4, deterministic=det_only,
                             with_binarizer=True, scale_ok=False, defaults_ok=True,
                             n_jobs_choices=(1, 1, 1, 1, 1, 1, 2)))
    fam = None
    if det_only and cfg["lp"][0] not in ("ThompsonSampling", "Popularity") and twin.is_deterministic(cfg):
        fam = "F"
    h = gen.History(draw, cfg, reward_family=fam, exact_only=(fam is None), max_rows=14)
    n = draw(st.integers(max(2, h.min_rows), 14 if tier == "quick" else 24))
    dec, rew, ctxs = h.batch(n=n, omit=False)
    if h.family in ("E", "Epos") and draw(st.booleans()):
        # rewards as users type them: whole numbers as Python ints next to fractions, so that some chunks are integer
        # lists while the batch (and other chunks) are float lists
        rew = [int(round(r)) if draw(st.booleans()) else r for r in rew]
    # composition into consecutive chunks
    first = draw(st.integers(h.min_rows, n))
    sizes = [first]
    rest = n - first
    while rest > 0:
        s = 1 if draw(st.booleans()) else draw(st.integers(1, rest))
        s = min(s, rest)
        sizes.append(s)
        rest -= s
    first_partial = draw(st.integers(0, 3)) == 0
    # the chunk-trained twin may answer a query between two chunks (C10 says this changes nothing; a cache filled
    # by such a query must not hide the rows of later chunks)
    mid_queries = [draw(st.booleans()) for _ in sizes]
    queries = []
    for _ in range(draw(st.integers(1, 3))):
        queries.append(h.queries())
    long_history = None
    if cfg["np"] and len(sizes) >= 2 and draw(st.integers(0, 3 if cfg["np"][0] == "Clusters" else 19)) == 0:
        # a long history followed by small updates: the first chunk is repeated (with a drift that keeps the rows
        # distinct) until it has more than 1100 rows, the later chunks stay as they are - optionally moved to a region
        # of their own, where a from-scratch clustering of everything differs from one refined from the old clusters
        long_history = {"times": -(-1100 // sizes[0]), "shift_later": draw(st.sampled_from([0, 0, 40, -25]))}
    return {"config": cfg, "decisions": dec, "rewards": rew, "contexts": ctxs, "sizes": sizes,
            "first_partial": first_partial, "queries": queries, "family": h.family, "mid_queries": mid_queries,
            "long_history": long_history}


def expand(plan):
    """The data set as trained on: the plan's rows, or (long_history) the first chunk repeated with a drift."""
    dec, rew, cx, sizes = plan["decisions"], plan["rewards"], plan["contexts"], plan["sizes"]
    lh = plan.get("long_history")
    if not lh:
        return dec, rew, cx, sizes
    f, t = sizes[0], lh["times"]
    dec2 = list(dec[:f]) * t + list(dec[f:])
    rew2 = list(rew[:f]) * t + list(rew[f:])
    cx2 = [[v + r / 1024.0 for v in row] for r in range(t) for row in cx[:f]] + \
          [[v + lh["shift_later"] for v in row] for row in cx[f:]]
    return dec2, rew2, cx2, [f * t] + list(sizes[1:])


def strategy(tier, ctx):
    return plan_st(tier)


def evaluate(plan, ctx):
    cfg = plan["config"]
    dec, rew, cx, sizes_x = expand(plan)
    a = ops.build(cfg)
    b = ops.build(cfg)
    twin.must_succeed(a, [["fit", dec, rew, cx]], "batch fit")
    pos = 0
    chunk_ops = []
    for i, s in enumerate(sizes_x):
        name = "fit" if (i == 0 and not plan["first_partial"]) else "partial_fit"
        chunk_ops.append([name, dec[pos:pos + s], rew[pos:pos + s], cx[pos:pos + s] if cx is not None else None])
        if plan.get("mid_queries") and plan["mid_queries"][i] and i + 1 < len(plan["sizes"]):
            chunk_ops.append(["predict_expectations", plan["queries"][0]])
            chunk_ops.append(["predict", plan["queries"][-1]])
        pos += s
    twin.must_succeed(b, chunk_ops, "chunked training")
    mode = streams.align(a, b, normalise=False)
    linear = cfg["lp"][0] in ops.LINEAR
    # linear policies accumulate lambda*I + sum of X'X per call: with a penalty that is not a dyadic rational the
    # chunked and the batch sums round differently in the last bit, which the property allows ("up to floating-point
    # rounding for linear policies"); their outputs, LinTS draws included, are continuous in the model
    exact = plan["family"] not in ("F", "Fpos") and not linear
    tol = 0.0 if exact else ((1e-6 if plan["family"] in ("F", "Fpos") else 1e-9) if linear else 1e-9)
    scale = 1.0 if exact else max(1.0, max(abs(float(r)) for r in rew))
    for rep in range(2):
        for q in plan["queries"]:
            oa = ops.apply_op(a, ["predict_expectations", q])
            ob = ops.apply_op(b, ["predict_expectations", q])
            if ops.is_exc(oa) or ops.is_exc(ob):
                raise Violation("unexpected_exception", "predict_expectations raised %s / %s" % (ops.short(oa), ops.short(ob)))
            if not ops.same(oa, ob, rtol=tol, atol=tol * scale):
                raise Violation("batch_vs_chunked_expectations",
                                "query %s: batch %s, chunked %s (chunks %r)" % (ops.short(q, 80), ops.short(oa),
                                                                                ops.short(ob), plan["sizes"]))
            pa = ops.apply_op(a, ["predict", q])
            pb = ops.apply_op(b, ["predict", q])
            if ops.is_exc(pa) or ops.is_exc(pb):
                raise Violation("unexpected_exception", "predict raised %s / %s" % (ops.short(pa), ops.short(pb)))
            if exact or twin.expectations_gap(oa) > 100 * tol * scale:
                if not ops.same(pa, pb):
                    raise Violation("batch_vs_chunked_predict", "query %s: batch %s, chunked %s (chunks %r)"
                                    % (ops.short(q, 80), ops.short(pa), ops.short(pb), plan["sizes"]))
    sizes = sizes_x
    nt = False
    if len(sizes) >= 2:
        pos = 0
        all_arms = set(dec)
        for s in sizes:
            if s == 1 or (all_arms - set(dec[pos:pos + s])):
                nt = True
            pos += s
    ev = twin.pair_events(cfg) + ["align=" + mode, "exact" if exact else "tolerance", "chunks=%d" % min(len(sizes), 6)]
    if plan["first_partial"]:
        ev.append("first_call_partial_fit")
    if plan.get("long_history"):
        ev.append("history_of_more_than_1100_rows_then_small_chunks")
    return Result(nt, ev)


SUBCHECKS = [SubCheck("chunking", strategy, evaluate, quick=6000, thorough=100000)]
KNOWN = {}

MANIFEST = {
    "level": "exploration",
    "technique": "property-based testing: generated data sets and chunk compositions (Hypothesis), differential twin "
                 "(single fit vs fit + partial_fit*)",
    "design_ref": "DESIGN.md section 4, C06",
    "text": "For generated row sequences and every generated composition into consecutive chunks, a batch-trained "
            "and a chunk-trained bandit must give the same expectations and predictions from the same stream "
            "position (bit-for-bit with exactly-summable rewards, stated tolerance otherwise). Search, not proof.",
    "note": "Trusted: vlib/streams.py for copying stream positions. General float rewards are restricted to "
            "deterministic policies, because a sampler's output is not a continuous function of its parameters.",
}
