"""C17 - a rejected call changes nothing."""
import copy
import os
import pickle

import numpy as np
import pandas as pd
from hypothesis import strategies as st

from vlib import binarizers, gen, ops, streams, twin
from vlib import campaign
from vlib.runner import Result, SubCheck, Violation

PROPERTY = "C17"
LEVEL = "fault_enumeration"
RULE = ("Length mismatches also as Series / DataFrame / ndarray contexts. A rejected call of a listed class must not move any random stream of the bandit (only a prediction rejected for its column count may). "
        "Fault injection into generated valid histories (every policy pair): at generated positions one call from a "
        "catalogue of rejected calls applicable to the bandit's current state is made - invalid __init__ arguments "
        "(while the bandit is alive), fit/partial_fit (wrong container types, length mismatches, None/NaN/Inf "
        "reward, non-binary reward for Thompson, contexts missing / superfluous / not 2-D, different column count in "
        "partial_fit, Clusters fit with fewer rows than clusters), predict/predict_expectations (before fit, "
        "contexts missing / not 2-D / wrong type / wrong column count), add_arm (duplicate, None, NaN, Inf, "
        "binarizer on non-Thompson, non-callable binarizer), remove_arm (unknown, None), warm_start (non-dict, int "
        "quantile, out of range, key mismatch, ragged vectors). A deep copy is taken before the call; the call must "
        "raise (otherwise it was not a rejected call: its effect is discarded and counted); then mab.arms must be "
        "unchanged, caller objects untouched, and after aligning stream positions the rest of the history (always "
        "ending with partial_fit + predictions) must give identical outputs on the bandit and on the copy. "
        "Non-trivial: a rejected call after a successful fit, followed by a partial_fit and a prediction. "
        "Distinct = distinct plan hash; evidence tabulates kind x neighbourhood policy.")
ASSUMPTIONS = [
    "stream positions are aligned after the rejected call: a rejected call that consumed random numbers is not by "
    "itself a violation (the property is about learned state and arms); such cases are counted",
    "a catalogue call that a configuration accepts (e.g. non-binary rewards for non-Thompson policies, ragged "
    "warm-start vectors under neighbourhood policies where warm_start is a no-op) is discarded, not a violation",
    "non-hashable objects as arms are outside the documented Arm type and not generated",
]
NT_FLOOR = 0.3

FIT_KINDS = ["dec_type", "rew_type", "len_dr", "len_dc", "len_dc_series", "len_dc_frame", "len_dc_array", "rew_none", "rew_nan", "rew_inf", "ts_nonbinary",
             "ctx_missing", "ctx_superfluous", "ctx_1d", "ctx_type", "pf_wrong_columns", "clusters_few_rows"]
QUERY_KINDS = ["before_fit", "q_missing", "q_1d", "q_type", "q_wrong_columns"]
ARM_KINDS = ["add_dup", "add_none", "add_nan", "add_inf", "add_binarizer_non_ts", "add_binarizer_noncallable",
             "rm_unknown", "rm_none", "add_with_prob_list", "rm_with_prob_list"]
WS_KINDS = ["ws_nondict", "ws_int_q", "ws_q_range", "ws_keys", "ws_ragged"]
INIT_KINDS = ["arms_not_list", "arms_none", "arms_nan", "arms_inf", "arms_dup", "lp_type", "eps_range", "eps_type",
              "np_type", "radius_zero", "k_zero", "metric_unknown", "tree_incompatible", "tree_param_unknown",
              "seed_type", "n_jobs_zero", "n_jobs_type", "backend_type", "prob_sum", "lsh_dims_zero",
              "clusters_one", "tau_zero", "alpha_negative", "lambda_negative"]


def applicable(kind, h):
    """Is the catalogue entry meaningful for the model state h (a gen.History)?"""
    ctxl = h.contextual
    lp = h.lp[0]
    if kind in ("len_dc", "len_dc_series", "len_dc_frame", "len_dc_array", "ctx_missing", "ctx_1d", "ctx_type"):
        return ctxl
    if kind == "ctx_superfluous":
        return not ctxl
    if kind == "ts_nonbinary":
        return lp == "ThompsonSampling" and h.lp[1].get("binarizer") is None
    if kind == "pf_wrong_columns":
        return ctxl and h.fitted
    if kind == "clusters_few_rows":
        return h.np is not None and h.np[0] == "Clusters"
    if kind == "before_fit":
        return not h.fitted
    if kind in ("q_missing", "q_wrong_columns"):
        return ctxl and h.fitted
    if kind in ("q_1d", "q_type"):
        return h.fitted
    if kind == "add_binarizer_non_ts":
        return lp != "ThompsonSampling"
    if kind == "add_binarizer_noncallable":
        return lp == "ThompsonSampling"
    if kind == "rm_unknown":
        return bool(h._free_labels())
    if kind == "add_with_prob_list":
        # the positional no_nhood_prob_of_arm list has no documented meaning after an arm change: the library may
        # accept the call (then its effect is discarded here) or reject it - a rejection must be atomic
        return h.has_prob_list and bool(h._free_labels())
    if kind == "rm_with_prob_list":
        return h.has_prob_list and len(h.arms) > 1
    if kind in WS_KINDS:
        return len(h.arms) >= 1
    return True


def draw_reject(h):
    """Draw one applicable rejected call; returns the op ["reject", kind, payload]."""
    draw = h.draw
    group = draw(st.sampled_from(["fit", "fit", "fit", "query", "arm", "ws", "init"]))
    pool = {"fit": FIT_KINDS, "query": QUERY_KINDS, "arm": ARM_KINDS, "ws": WS_KINDS, "init": INIT_KINDS}[group]
    if group == "fit":
        # the rejections that surface from inside training (after validation) are the ones most likely to leave
        # state behind: weight them
        pool = pool + ["pf_wrong_columns"] * 4 + ["clusters_few_rows"] * 3 + ["len_dc_series"] * 2
    ok = [k for k in pool if group == "init" or applicable(k, h)]
    if not ok:
        ok = ["add_dup"]
        group = "arm"
    kind = draw(st.sampled_from(ok))
    payload = {}
    if group == "fit":
        call = "partial_fit" if kind == "pf_wrong_columns" else draw(st.sampled_from(["fit", "partial_fit"]))
        if kind == "clusters_few_rows":
            n = h.np[1].get("n_clusters", 2) - 1
            if h.fitted:
                call = "fit"
            dec, rew, cx = h.batch(n=n, omit=False)
            if call == "fit" and draw(st.booleans()):
                # ... and with another number of feature columns than the history (a fit may change the width, so
                # only the row count makes this call invalid)
                extra = draw(st.sampled_from([1, -1])) if h.d > 1 else 1
                cx = draw(gen.contexts_st(len(dec), h.d + extra, h.grid))
        else:
            dec, rew, cx = h.batch(n=draw(st.integers(max(2, h.min_rows), 6)), omit=False)
        if kind == "pf_wrong_columns":
            extra = draw(st.sampled_from([1, -1])) if h.d > 1 else 1
            if draw(st.booleans()):
                # every arm occurs in the batch: arms with and without trained state are updated by the same call,
                # whichever comes first in the arm list
                dec = draw(gen.perm_st(list(h.arms) + list(dec)[:max(0, len(dec) - len(h.arms))]))
                rew = (list(rew) * len(dec))[:len(dec)]
            cx = draw(gen.contexts_st(len(dec), h.d + extra, h.grid))
        if kind == "ctx_superfluous":
            cx = draw(gen.contexts_st(len(dec), 2, h.grid))
        payload = {"call": call, "decisions": dec, "rewards": rew, "contexts": cx}
        if kind in ("len_dc_series", "len_dc_frame", "len_dc_array"):
            payload["longer"] = draw(st.booleans())
    elif group == "query":
        payload = {"call": draw(st.sampled_from(["predict", "predict_expectations"]))}
        if kind == "q_wrong_columns":
            extra = draw(st.sampled_from([1, -1])) if h.d > 1 else 1
            payload["contexts"] = draw(gen.contexts_st(draw(st.integers(1, 3)), h.d + extra, h.grid))
        elif kind == "before_fit":
            payload["contexts"] = draw(gen.contexts_st(1, h.d, h.grid)) if h.contextual else None
    elif group == "arm":
        if kind == "rm_unknown":
            payload = {"arm": draw(st.sampled_from(h._free_labels()))}
        elif kind == "add_dup":
            payload = {"arm": draw(st.sampled_from(h.arms))}
        elif kind == "add_with_prob_list":
            payload = {"arm": draw(st.sampled_from(h._free_labels()))}
        elif kind == "rm_with_prob_list":
            payload = {"arm": draw(st.sampled_from(h.arms))}
        elif kind.startswith("add_binarizer"):
            free = h._free_labels()
            payload = {"arm": free[0] if free else "fresh-label"}
        if kind in ("add_dup", "add_none", "add_nan", "add_inf") and h.lp[0] == "ThompsonSampling" \
                and draw(st.booleans()):
            # the invalid arm comes with a perfectly valid new binarizer: the call is rejected as a whole
            payload = dict(payload, binarizer=draw(st.sampled_from([{"kind": "flip"}, {"kind": "parity"},
                                                                   {"kind": "threshold", "op": "le", "table": [],
                                                                    "default": 0.5}])))
    elif group == "ws":
        nf = draw(st.integers(2, 3))
        payload = {"features": [[a, draw(st.lists(st.integers(-2, 2), min_size=nf, max_size=nf))] for a in h.arms],
                   "extra": (h._free_labels() or ["fresh-label"])[0]}
    h.ops.append(["reject", kind, payload])
    op = h.ops[-1]
    if h.fitted and (kind in ("pf_wrong_columns", "clusters_few_rows") or draw(st.booleans())):
        # immediately consult the state the rejected call may have touched, before any successful training call
        # overwrites it: an arm change, a warm start or a query
        gen.step_any(h, ["add_arm", "add_arm", "remove_arm", "warm_start", "predict", "predict_expectations"], True)
    return op


@st.composite
def plan_st(draw, tier):
    cfg = draw(gen.config_st(metrics=gen.SAFE_METRICS, arm_kinds=("int", "str", "float", "mix"), max_arms=4, with_binarizer=True, scale_ok=True,
                             defaults_ok=True))
    h = gen.History(draw, cfg, max_rows=7, series_queries=True, refit_new_d=True)
    n_rej = 0
    if draw(st.integers(0, 4)) == 0:       # rejected calls before the first fit
        draw_reject(h)
        n_rej += 1
    h.fit() if draw(st.integers(0, 3)) else h.partial_fit()
    for _ in range(draw(st.integers(0, 6 if tier == "quick" else 12))):
        if n_rej < 3 and draw(st.integers(0, 2)) == 0:
            draw_reject(h)
            n_rej += 1
        else:
            gen.step_any(h, gen.TRAIN_KINDS + gen.ARM_KINDS + gen.QUERY_KINDS * 2 + gen.WARM_KINDS, True)
    if n_rej == 0 or draw(st.booleans()):
        draw_reject(h)
    # every history ends with the continuation the property singles out
    h.partial_fit()
    h.predict_expectations()
    h.predict()
    if draw(st.booleans()):
        gen.step_any(h, gen.ARM_KINDS, True)
        h.partial_fit()
        h.query()
    return {"config": cfg, "ops": h.ops, "d": h.d}


def strategy(tier, ctx):
    return plan_st(tier)


# ------------------------------------------------------------------------------------------------------------

def init_call(kind, cfg):
    """Arguments of an invalid constructor call; returns (thunk, caller_objects)."""
    from mabwiser.mab import MAB, LearningPolicy as LP, NeighborhoodPolicy as NP
    arms = list(cfg["arms"])
    lp = ops.make_lp(cfg["lp"])
    npol = ops.make_np(cfg.get("np"))
    kw = {}
    if kind == "arms_not_list":
        arms = tuple(arms)
    elif kind == "arms_none":
        arms = arms + [None]
    elif kind == "arms_nan":
        arms = arms + [np.nan]
    elif kind == "arms_inf":
        arms = arms + [np.inf]
    elif kind == "arms_dup":
        arms = arms + [arms[0]]
    elif kind == "lp_type":
        lp = "EpsilonGreedy"
    elif kind == "eps_range":
        lp = LP.EpsilonGreedy(epsilon=1.5)
    elif kind == "eps_type":
        lp = LP.EpsilonGreedy(epsilon="0.1")
    elif kind == "np_type":
        npol = "Radius"
    elif kind == "radius_zero":
        npol = NP.Radius(radius=0)
    elif kind == "k_zero":
        npol = NP.KNearest(k=0)
    elif kind == "metric_unknown":
        npol = NP.KNearest(k=1, metric="no-such-metric")
    elif kind == "tree_incompatible":
        lp, npol = LP.Softmax(), NP.TreeBandit()
    elif kind == "tree_param_unknown":
        lp, npol = LP.UCB1(), NP.TreeBandit(tree_parameters={"no_such_parameter": 1})
    elif kind == "seed_type":
        kw["seed"] = 1.5
    elif kind == "n_jobs_zero":
        kw["n_jobs"] = 0
    elif kind == "n_jobs_type":
        kw["n_jobs"] = 1.0
    elif kind == "backend_type":
        kw["backend"] = 3
    elif kind == "prob_sum":
        npol = NP.Radius(radius=1, no_nhood_prob_of_arm=[0.5] * (len(arms) + 1))
    elif kind == "lsh_dims_zero":
        npol = NP.LSHNearest(n_dimensions=0)
    elif kind == "clusters_one":
        npol = NP.Clusters(n_clusters=1)
    elif kind == "tau_zero":
        lp = LP.Softmax(tau=0)
    elif kind == "alpha_negative":
        lp = LP.UCB1(alpha=-1)
    elif kind == "lambda_negative":
        lp = LP.LinUCB(l2_lambda=-1)
    else:
        raise ValueError(kind)
    return (lambda: MAB(arms, lp, npol, **kw)), [arms, kw]


def reject_call(mab, kind, payload, cfg):
    """-> (thunk performing the invalid call, list of caller objects that must stay untouched)."""
    if kind in INIT_KINDS:
        return init_call(kind, cfg)
    p = payload
    if kind in FIT_KINDS:
        dec, rew = list(p["decisions"]), list(p["rewards"])
        cx = copy.deepcopy(p["contexts"])
        if kind == "dec_type":
            dec = tuple(dec)
        elif kind == "rew_type":
            rew = tuple(rew)
        elif kind == "len_dr":
            rew = rew[:-1]
        elif kind == "len_dc":
            cx = cx + [cx[0]]
        elif kind in ("len_dc_series", "len_dc_frame", "len_dc_array"):
            # the same mismatch in the other containers the signature accepts; a Series is one column of values here
            # (two or more decisions), whose length is checked like that of any other container
            rows = (cx + [cx[0]]) if p.get("longer") else cx[:-1]
            if kind == "len_dc_series":
                cx = pd.Series([r[0] for r in rows])
            elif kind == "len_dc_frame":
                cx = pd.DataFrame(rows)
            else:
                cx = np.asarray(rows, dtype=float)
        elif kind == "rew_none":
            rew[0] = None
        elif kind == "rew_nan":
            rew[-1] = float("nan")
        elif kind == "rew_inf":
            rew[0] = float("inf")
        elif kind == "ts_nonbinary":
            rew[-1] = 2
        elif kind == "ctx_missing":
            cx = None
        elif kind == "ctx_1d":
            cx = [row[0] for row in cx]
        elif kind == "ctx_type":
            cx = tuple(tuple(r) for r in cx)
        f = getattr(mab, p["call"])
        if cx is None:
            return (lambda: f(dec, rew)), [dec, rew]
        return (lambda: f(dec, rew, cx)), [dec, rew, cx]
    if kind in QUERY_KINDS:
        f = getattr(mab, p["call"])
        if kind == "before_fit":
            q = p.get("contexts")
            return ((lambda: f(q)) if q is not None else (lambda: f())), [q]
        if kind == "q_missing":
            return (lambda: f()), []
        if kind == "q_1d":
            q = [1, 2]
        elif kind == "q_type":
            q = ((1, 2),)
        else:
            q = copy.deepcopy(p["contexts"])
        return (lambda: f(q)), [q]
    if kind in ("add_dup", "add_none", "add_nan", "add_inf") and p.get("binarizer"):
        nb = binarizers.make(p["binarizer"])
        bad = {"add_dup": p.get("arm"), "add_none": None, "add_nan": np.nan, "add_inf": np.inf}[kind]
        return (lambda: mab.add_arm(bad, nb)), []
    if kind in ("add_dup", "add_with_prob_list"):
        return (lambda: mab.add_arm(p["arm"])), []
    if kind == "rm_with_prob_list":
        return (lambda: mab.remove_arm(p["arm"])), []
    if kind == "add_none":
        return (lambda: mab.add_arm(None)), []
    if kind == "add_nan":
        return (lambda: mab.add_arm(np.nan)), []
    if kind == "add_inf":
        return (lambda: mab.add_arm(np.inf)), []
    if kind == "add_binarizer_non_ts":
        b = binarizers.make({"kind": "parity"})
        return (lambda: mab.add_arm(p["arm"], b)), []
    if kind == "add_binarizer_noncallable":
        return (lambda: mab.add_arm(p["arm"], "not callable")), []
    if kind == "rm_unknown":
        return (lambda: mab.remove_arm(p["arm"])), []
    if kind == "rm_none":
        return (lambda: mab.remove_arm(None)), []
    feats = {a: list(v) for a, v in p.get("features", [])}
    if kind == "ws_nondict":
        fl = [[a, v] for a, v in feats.items()]
        return (lambda: mab.warm_start(fl, 0.5)), [fl]
    if kind == "ws_int_q":
        return (lambda: mab.warm_start(feats, 1)), [feats]
    if kind == "ws_q_range":
        return (lambda: mab.warm_start(feats, 1.5)), [feats]
    if kind == "ws_keys":
        feats[p["extra"]] = [0, 0]
        return (lambda: mab.warm_start(feats, 0.5)), [feats]
    if kind == "ws_ragged":
        k0 = next(iter(feats))
        feats[k0] = feats[k0] + [1]
        return (lambda: mab.warm_start(feats, 0.5)), [feats]
    raise ValueError(kind)


STREAM_MAY_MOVE = ("q_wrong_columns",)


def snap(objs):
    try:
        return pickle.dumps(objs, protocol=4)
    except Exception:
        return repr(objs).encode()


def evaluate(plan, ctx):
    cfg = plan["config"]
    mab = ops.build(cfg)
    twins = []          # (index of the rejected call, kind, copy taken before it)
    ev = set(twin.pair_events(cfg))
    npn = cfg["np"][0] if cfg["np"] else "none"
    fitted = False
    rejected_after_fit = False
    pf_after = False
    nontrivial = False
    for i, op in enumerate(plan["ops"]):
        if op[0] == "reject":
            kind, payload = op[1], op[2]
            before = copy.deepcopy(mab)
            arms_before = [ops.py(a) for a in mab.arms]
            pos_before = streams.positions(mab)
            thunk, caller = reject_call(mab, kind, payload, cfg)
            s0 = snap(caller)
            try:
                thunk()
            except Exception as e:
                exc = e
            else:
                exc = None
            if snap(caller) != s0:
                raise Violation("caller_object_modified", "step %d: %s modified its arguments" % (i, kind))
            if exc is None:
                ev.add("accepted:%s" % kind)
                mab = before            # not a rejected call: discard its effect
                continue
            ev.add("rejected:%s|%s" % (kind, npn))
            if [ops.py(a) for a in mab.arms] != arms_before:
                raise Violation("arms_changed", "step %d: rejected %s (%s) changed mab.arms from %r to %r"
                                % (i, kind, type(exc).__name__, arms_before, mab.arms), bucket="arms_changed:" + kind)
            for q in (["policies"], ["cold_arms"]):
                oq, ob = ops.apply_op(mab, q), ops.apply_op(before, q)
                if not ops.outputs_equal(oq, ob):
                    raise Violation("state_changed", "step %d: rejected %s (%s) changed %s from %s to %s"
                                    % (i, kind, type(exc).__name__, q[0], ops.short(ob), ops.short(oq)),
                                    bucket="state_changed:%s:%s" % (kind, q[0]))
            if streams.positions(mab) != pos_before:
                ev.add("rejected_call_consumed_randomness")
                ev.add("consumed_randomness:%s" % kind)
                # "exactly as it was" includes the position of the random streams: every later randomised answer depends
                # on it.  The one class for which the position may move is a prediction rejected for its column count -
                # a shape error from inside *prediction*, which the property does not list (it lists shape errors from
                # inside training) and whose only effect, like that of any prediction (C10), is on the streams.
                if kind not in STREAM_MAY_MOVE:
                    raise Violation("stream_advanced", "step %d: rejected %s (%s) advanced a random stream of the bandit"
                                    % (i, kind, type(exc).__name__), bucket="stream_advanced:" + kind)
            twins.append((i, kind, type(exc).__name__, before))
            try:
                for (_, _, _, t) in twins:      # every live copy continues from the bandit's stream positions
                    streams.align(mab, t)
            except RuntimeError as e:
                raise Violation("state_changed", "step %d: rejected %s changed the generator structure: %s"
                                % (i, kind, e), bucket="state_changed:" + kind)
            if fitted:
                rejected_after_fit = True
                pf_after = False
            continue
        out = ops.apply_op(mab, op)
        outs2 = [ops.apply_op(t, op) for (_, _, _, t) in twins]
        # a difference is attributed to the latest rejected call whose 'before' copy disagrees with the bandit
        for (j, kind, en, t), o2 in reversed(list(zip(twins, outs2))):
            if not ops.outputs_equal(out, o2):
                raise Violation("state_changed",
                                "rejected call at step %d (%s raised %s) is visible at step %d %s: bandit %s, copy "
                                "taken before the call %s" % (j, kind, en, i, ops.short(op, 120), ops.short(out),
                                                              ops.short(o2)),
                                bucket="state_changed:%s:%s" % (kind, npn if kind in ("pf_wrong_columns", "clusters_few_rows") else "*"))
        if ops.is_exc(out):
            if op[0].startswith("predict") and not fitted:
                continue
            raise Violation("unexpected_exception", "step %d %s raised %s" % (i, op[0], ops.short(out)),
                            bucket="unexpected_exception:%s:%s" % (op[0], out[1]))
        if op[0] in ops.TRAIN_OPS:
            fitted = True
            if op[0] == "partial_fit" and rejected_after_fit:
                pf_after = True
        elif op[0].startswith("predict") and pf_after:
            nontrivial = True
    return Result(nontrivial, sorted(ev))


SUBCHECKS = [
    SubCheck("inject", strategy, evaluate, quick=10000, thorough=120000),
    # thorough tier only: coverage-guided campaign (atheris) over the same generator and oracle
    SubCheck("atheris", strategy, evaluate, 0, 0, external=campaign.atheris_external("C17", "inject")),
]
KNOWN = {}

MANIFEST = {
    "level": "fault_enumeration",
    "technique": "property-based fault injection: catalogue of rejected calls injected at generated positions of "
                 "generated valid histories (Hypothesis), differential twin (bandit vs deep copy taken before the "
                 "rejected call)",
    "design_ref": "DESIGN.md section 4, C17",
    "text": "Every class of invalid argument the property lists is injected at generated positions of valid "
            "histories over every policy pair; the call must raise, leave mab.arms and the caller's objects "
            "untouched, and the rest of the history must be indistinguishable from the copy taken before it. The "
            "catalogue is enumerated by kind x policy pair (tabulated in the evidence); positions and continuations "
            "are sampled, not exhaustive.",
    "note": "Trusted: copy.deepcopy as the 'call never made' reference; stream positions are re-aligned after the "
            "rejected call. Catalogue entries a configuration accepts are discarded and counted.",
}
