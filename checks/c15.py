"""C15 - the Simulator reports what the public API would have produced."""
import copy

from hypothesis import strategies as st

from vlib import ops, simgen, twin
from vlib.runner import Result, SubCheck, Violation

PROPERTY = "C15"
LEVEL = "exploration"
RULE = ("One bandit in three has been trained and queried through the public API before the Simulator (and the reference copy) sees it. "
        "Generated simulations: 1..3 bandits over every policy pair sharing one arm list (context-free bandits only "
        "when the data set has no contexts; with probability 1/2 several Radius or several KNearest bandits with "
        "different metrics), 8..40 rows, test_size from a drawn test count, is_ordered, batch_size in {0, 1..|test|}, "
        "is_quick, seeds, list or ndarray data. Every bandit is deep-copied before the Simulator sees it and the copy "
        "is driven through MAB.fit / predict / predict_expectations / partial_fit with the same split and protocol "
        "(offline: fit, predict all test rows - one call per row for context-free bandits; online: per batch predict, "
        "read expectations, partial_fit). sim.test_indices must equal the independent split; the reported "
        "predictions must equal the replay; reported expectations are compared for deterministic policies ({} is "
        "all-NaN). Non-trivial: a simulator-replaced neighbourhood bandit and (online mode or two bandits with "
        "different metrics).")
ASSUMPTIONS = [
    "the protocol wording does not say whether reading expectations consumes randomness: the replay is accepted with "
    "or without a separate predict_expectations call after each predict",
    "sklearn.model_selection.train_test_split is trusted for the random split",
    "chunk sizes below the test-set size need > 1 GB of distances and are not reached",
]
NT_FLOOR = 0.15
D8 = simgen.D8


def strategy(tier, ctx):
    return simgen.sim_plan_st(tier, ctx)


def canon_sim_expectations(e, arms):
    """simulator expectation entry ({} = empty neighbourhood) -> canonical list of [arm, value]."""
    if not e:
        return [[a, float("nan")] for a in arms]
    return ops.canon_expectations(e)


def evaluate(plan, ctx):
    originals = simgen.build_bandits(plan)
    copies_a = [(n, copy.deepcopy(m)) for n, m in originals]
    copies_b = [(n, copy.deepcopy(m)) for n, m in originals]
    try:
        sim = simgen.run_simulator(plan, originals)
    except Exception as e:
        # a metric with data-dependent parameters may reject the data (mahalanobis with too few rows, singular
        # covariance): then the public API must reject it as well, and the case says nothing else
        for (name, ca) in copies_a:
            try:
                simgen.api_replay(plan, ca, True)
            except Exception:
                return Result(False, ["data_rejected_by_both:" + type(e).__name__], skipped=True)
        raise Violation("simulator_raised", "Simulator raised %r but the public-API replay of every bandit succeeds"
                        % (e,), bucket="simulator_raised:" + type(e).__name__)
    tr, te = simgen.split(plan)
    if [int(i) for i in sim.test_indices] != te:
        raise Violation("test_indices", "simulator %r, independent split %r" % (list(sim.test_indices), te))
    arms = list(plan["arms"])
    ev = ["online" if plan["batch_size"] else "offline", "bandits=%d" % len(originals)]
    if plan.get("scaler"):
        ev.append("scaler=" + plan["scaler"])
    if plan.get("binarized"):
        ev.append("thompson_binarizer")
    ev.append("data=" + plan.get("data_container", "list"))
    if any(b.get("pre") for b in plan["bandits"]):
        ev.append("bandit_used_before_the_simulation")
    metrics = set()
    replaced = False
    for b, (name, ca), (_, cb) in zip(plan["bandits"], copies_a, copies_b):
        cfg = b["config"]
        ev += twin.pair_events(cfg)
        if simgen.is_replaced(cfg):
            replaced = True
            if cfg["np"][0] in ("Radius", "KNearest"):
                metrics.add(cfg["np"][1].get("metric", "euclidean"))
        got = [ops.py(x) for x in sim.bandit_to_predictions[name]]
        try:
            pa, ea = simgen.api_replay(plan, ca, True)
            pb, _ = simgen.api_replay(plan, cb, False)
        except Exception as e:
            raise Violation("replay_raised", "public-API replay of %s raised %r" % (name, e))
        if len(got) != len(te):
            raise Violation("prediction_count", "%s: %d predictions for %d test rows" % (name, len(got), len(te)))
        if got != pa and got != pb:
            k = next(i for i in range(len(got)) if got[i] != pa[i] or got[i] != pb[i])
            raise Violation("predictions_differ",
                            "%s (%s / %s): simulator %s; API replay with expectation calls %s, without %s (first "
                            "difference at test row %d; %s, batch_size %r, position %d of %d bandits)"
                            % (name, cfg["lp"], cfg["np"], ops.short(got, 200), ops.short(pa, 200), ops.short(pb, 200), k,
                               "ordered" if plan["is_ordered"] else "random split", plan["batch_size"],
                               [x["name"] for x in plan["bandits"]].index(name), len(plan["bandits"])),
                            bucket="predictions_differ:" + (cfg["np"][0] if cfg["np"] else "none"))
        ev.append("variant=" + ("with_calls" if got == pa else "without_calls"))
        if twin.is_deterministic(cfg):
            se = sim.bandit_to_expectations[name]
            if isinstance(se, dict):
                se = [se]
            got_e = [canon_sim_expectations(x, list(cfg["arms"])) for x in se]
            # exact: the simulator's re-implementations sum the same rewards in the same order as the library
            if len(got_e) != len(ea) or not ops.same(got_e, ea):
                raise Violation("expectations_differ", "%s (%s / %s): simulator %s, API %s"
                                % (name, cfg["lp"], cfg["np"], ops.short(got_e, 300), ops.short(ea, 300)),
                                bucket="expectations_differ:" + (cfg["np"][0] if cfg["np"] else "none"))
            ev.append("expectations_compared")
    nt = replaced and (plan["batch_size"] > 0 or len(metrics) > 1)
    if len(metrics) > 1:
        ev.append("different_metrics")
    return Result(nt, ev)


# ---- thorough tier only: an offline simulation large enough for the Simulator to split the test rows into chunks (the
# shared distance list is limited to 1 GB: 10 000 training rows x 12 600 test rows) ------------------------------------

@st.composite
def chunked_plan_st(draw, tier):
    return {"k": draw(st.integers(3, 7)), "radius": draw(st.sampled_from([2, 3, 5])),
            "m1": draw(st.sampled_from([7919, 104729, 1299709])), "m2": draw(st.sampled_from([15485863, 32452843])),
            "seed": draw(st.integers(0, 2 ** 16)), "is_quick": draw(st.booleans())}


def chunked_strategy(tier, ctx):
    return chunked_plan_st(tier)


def evaluate_chunked(params, ctx):
    n_train, n_test = 10000, 12600
    n = n_train + n_test
    arms = [1, 2, 3]
    # data as a pure function of the row index and the drawn multipliers (no generator of our own)
    contexts = [[(i * params["m1"]) % 101, (i * params["m2"]) % 103] for i in range(n)]
    decisions = [arms[(i * 31 + (i // 7)) % 3] for i in range(n)]
    rewards = [((i * 17) % 5) for i in range(n)]
    bandits = [{"name": "b0", "config": {"arms": arms, "lp": ["EpsilonGreedy", {"epsilon": 0}],
                                        "np": ["KNearest", {"k": params["k"], "metric": "euclidean"}],
                                        "seed": params["seed"], "n_jobs": 1, "backend": None, "arm_kind": "int"}},
               {"name": "b1", "config": {"arms": arms, "lp": ["UCB1", {"alpha": 1}],
                                        "np": ["Radius", {"radius": params["radius"], "metric": "euclidean"}],
                                        "seed": params["seed"], "n_jobs": 1, "backend": None, "arm_kind": "int"}}]
    plan = {"scaler": None, "arms": arms, "bandits": bandits, "decisions": decisions, "rewards": rewards,
            "contexts": contexts, "test_size": n_test / float(n), "n_test": n_test, "exact_count": False,
            "is_ordered": True, "batch_size": 0, "is_quick": params["is_quick"], "seed": params["seed"],
            "binarized": False, "data_container": "ndarray"}
    r = evaluate(plan, ctx)
    return Result(True, list(r.events) + ["chunked_offline_simulation"])


SUBCHECKS = [SubCheck("replay", strategy, evaluate, quick=3000, thorough=25000),
             SubCheck("chunked", chunked_strategy, evaluate_chunked, quick=0, thorough=2, workers=1, thorough_s=1500,
                      shrink=False)]
KNOWN = {}

MANIFEST = {
    "level": "exploration",
    "technique": "property-based testing: generated simulations (Hypothesis), differential replay of every bandit "
                 "through the public API on a deep copy taken before the Simulator saw it",
    "design_ref": "DESIGN.md section 4, C15",
    "text": "For generated simulations (several bandits, all policy pairs, offline and online protocol, ordered and "
            "random split, all batch sizes) the predictions and the deterministic expectations the Simulator reports "
            "must equal an independent replay through MAB.fit / predict / predict_expectations / partial_fit. Search, "
            "not proof.",
    "note": "Trusted: sklearn's train_test_split; deep copies of the bandits taken before the simulation. The replay "
            "is accepted with or without separate predict_expectations calls.",
}
