"""C01 - context-free policies compute the documented statistic of each arm's history."""
import copy
import math

import numpy as np
from hypothesis import strategies as st

from vlib import gen, ops, ref, streams
from vlib.runner import Result, SubCheck, Violation

PROPERTY = "C01"
LEVEL = "exploration"
RULE = ("Model-based generated histories over {fit, partial_fit, add_arm, remove_arm (incl. re-adding a removed "
        "label)} for one context-free policy; after every step the library's per-arm parameters and public "
        "outputs are compared with a pure-Python reference computed from the raw per-arm reward lists, and "
        "randomised outputs with the documented sampler replayed on a clone of the bandit's generator. "
        "Non-trivial: the history has a partial_fit whose batch omits an arm observed earlier, or an arm "
        "change between two training calls, or a re-added label. Distinct = distinct plan hash.")
ASSUMPTIONS = [
    "decisions are drawn from the current arm list (the library does not validate them)",
    "exactly-summable rewards (multiples of 1/8) are compared with 1e-12 relative tolerance, general floats "
    "with 1e-9 * max(1, max|reward|) (1e-6 for soft-max ratios)",
    "Popularity with all arm means zero (0/0): the shares are not documented (a new arm holds 0 next to the uniform "
    "shares of the older ones); asserted: finite, non-negative, summing to one",
    "if the exact sampler replay differs, a 6-sigma test of 4000 draws against the reference parameters "
    "arbitrates before a mismatch counts",
]
NT_FLOOR = 0.2

POLICIES = ["EpsilonGreedy", "UCB1", "Softmax", "Popularity", "ThompsonSampling", "Random"]


@st.composite
def plan_st(draw, tier):
    cfg = draw(gen.config_st(many_arms_ok=True, lps=POLICIES, nps=[None], arm_kinds=("int", "str", "float", "mix", "int", "str", "float", "mix", "bigint"), min_arms=1,
                             max_arms=5))
    h = gen.History(draw, cfg, max_rows=12)
    n = draw(st.integers(1, 14 if tier == "quick" else 25))
    for _ in range(draw(st.sampled_from([0, 0, 0, 1, 2]))):      # arm changes before the first training call
        h.step(["add_arm", "remove_arm"]) if (h.can_add() or h.can_remove()) else None
    h.fit() if draw(st.integers(0, 3)) else h.partial_fit()
    for _ in range(n):
        h.step(["fit", "partial_fit", "partial_fit", "partial_fit", "add_arm", "remove_arm"])
    mq = draw(st.sampled_from([None, 1, 2, 4]))
    ops_ = h.ops
    if draw(st.integers(0, 11)) == 0 and h.family not in ("F", "Fpos"):
        # one training call with thousands of rows (the batch tiled; exactly summable rewards stay exact)
        i = draw(st.sampled_from([k for k, op in enumerate(ops_) if op[0] in ("fit", "partial_fit")]))
        ops_[i] = [ops_[i][0] + "_tiled", ops_[i][1], ops_[i][2], ops_[i][3], draw(st.sampled_from([300, 1100, 4200, 9000]))]
    rdt = None
    if h.family in ("Eint", "B") and draw(st.integers(0, 3)) == 0:
        # rewards handed over as a compact array (ratings in int8, clicks as bool): sums must not be formed in that type
        rdt = draw(st.sampled_from(["int8", "int16", "int32"] if h.family == "Eint" else ["bool", "int8", "uint8"]))
    das = None
    if cfg["arm_kind"] in ("int", "bigint") and draw(st.integers(0, 2 if cfg["arm_kind"] == "bigint" else 7)) == 0:
        # decisions as a pandas Series of the nullable integer type, or an int64 array
        das = draw(st.sampled_from(["Int64", "Int64", "int64"]))
    return {"config": cfg, "ops": ops_, "family": h.family, "mq": mq, "reward_dtype": rdt, "decisions_as": das}


def strategy(tier, ctx):
    return plan_st(tier)


def _tol(family, r, soft=False):
    if family in ("F", "Fpos"):
        return (1e-6 if soft else 1e-9) * max(1.0, r.max_abs())
    return 1e-12


def _cmp_dict(got, want, tol, clause, what):
    if list(got.keys()) != list(want.keys()):
        raise Violation(clause, "%s: keys %r, expected %r" % (what, list(got.keys()), list(want.keys())))
    for a in want:
        if not ops.float_eq(got[a], want[a], rtol=tol, atol=tol):
            raise Violation(clause, "%s: arm %r holds %r, reference %r (all: got %r want %r)"
                            % (what, a, ops.py(got[a]), want[a], {k: ops.py(v) for k, v in got.items()}, want))


def _mean_test(mab, moments, clause, what, n=4000):
    """6-sigma test of the sample mean of n public draws (on a deep copy) against the reference moments."""
    twin = copy.deepcopy(mab)
    rows = twin.predict_expectations([[0]] * n)
    for a, (mu, var) in moments.items():
        xs = np.array([row[a] for row in rows], dtype=float)
        if not np.all(np.isfinite(xs)):
            raise Violation(clause, "%s: non-finite draw for arm %r" % (what, a))
        bound = 6.0 * math.sqrt(var / n) + 1e-9
        if abs(xs.mean() - mu) > bound:
            raise Violation(clause, "%s: arm %r sample mean %.6f over %d draws, reference mean %.6f +- %.6f"
                            % (what, a, xs.mean(), n, mu, bound))


def _as_dicts(out):
    """canonical expectations output -> list of dicts."""
    if out[0] == "S":
        return [dict((k, v) for k, v in out[1])], True
    return [dict((k, v) for k, v in e) for e in out[1]], False


def check_state(mab, r, cfg, family, mq, step, events):
    name, params = cfg["lp"]
    imp = mab._imp
    tol = _tol(family, r)
    arms = list(r.arms)
    if [ops.py(a) for a in mab.arms] != arms:
        raise Violation("arms", "step %d: mab.arms %r, reference %r" % (step, mab.arms, arms))
    size = None if mq in (None, 1) else mq
    query = None if mq is None else [[0]] * mq
    clone = streams.clone_rng(mab._rng)
    twin = copy.deepcopy(mab)
    out = ops.apply_op(twin, ["predict_expectations", query])
    if ops.is_exc(out):
        raise Violation("unexpected_exception", "step %d: predict_expectations raised %r" % (step, out))
    got_rows, single = _as_dicts(out)
    if single != (size is None):
        raise Violation("shape", "step %d: %s result for %r query rows" % (step, "single" if single else "list", mq))
    if not single and len(got_rows) != mq:
        raise Violation("shape", "step %d: %d results for %d rows" % (step, len(got_rows), mq))

    def cmp_rows(want_rows, clause, what, t=0.0):
        want_rows = [want_rows] if isinstance(want_rows, dict) else want_rows
        for g, w in zip(got_rows, want_rows):
            _cmp_dict(g, w, t, clause, "step %d %s" % (step, what))

    if name == "EpsilonGreedy":
        want = r.greedy()
        _cmp_dict(imp.arm_to_expectation, want, tol, "greedy_mean", "step %d arm_to_expectation" % step)
        eps = params["epsilon"]
        if eps == 0:
            cmp_rows([want] * len(got_rows), "greedy_public", "predict_expectations", tol)
        else:
            replay = ref.sample_greedy(clone, arms, want, eps, size)
            try:
                cmp_rows(replay, "greedy_sampler", "sampler replay", tol)
            except Violation:
                events.append("arbitrated")
                _mean_test(mab, ref.moments_greedy(want, eps), "greedy_sampler", "step %d" % step)
    elif name == "UCB1":
        want = r.ucb1(params["alpha"])
        _cmp_dict(imp.arm_to_expectation, want, tol, "ucb1_value", "step %d arm_to_expectation" % step)
        cmp_rows([want] * len(got_rows), "ucb1_public", "predict_expectations", tol)
    elif name == "Softmax":
        want = r.softmax(params["tau"])
        _cmp_dict(imp.arm_to_expectation, want, _tol(family, r, soft=True), "softmax_value",
                  "step %d arm_to_expectation" % step)
        replay = ref.sample_dirichlet(clone, arms, {a: float(imp.arm_to_expectation[a]) for a in arms}, size)
        try:
            cmp_rows(replay, "softmax_sampler", "sampler replay")
        except Violation:
            events.append("arbitrated")
            _mean_test(mab, ref.moments_dirichlet(want), "softmax_sampler", "step %d" % step)
    elif name == "Popularity":
        want = r.popularity()
        held = {a: float(imp.arm_to_expectation[a]) for a in imp.arm_to_expectation}
        if want is None:
            events.append("popularity_zero_total")
            if list(held) != arms or not all(math.isfinite(v) and v >= 0 for v in held.values()):
                raise Violation("popularity_value", "step %d: zero total, holds %r" % (step, held))
            # nothing to normalise (0/0): which arm gets which share is not documented (a new arm holds 0 next to the
            # uniform shares of the others), but the held values are still "normalised to sum to one"
            if not ops.float_eq(math.fsum(held.values()), 1.0, rtol=1e-12):
                raise Violation("popularity_value", "step %d: every arm mean is zero, the arms hold %r, which does "
                                "not sum to one" % (step, held), bucket="popularity_value:zero_total_sum")
        else:
            _cmp_dict(imp.arm_to_expectation, want, _tol(family, r), "popularity_value",
                      "step %d arm_to_expectation" % step)
            replay = ref.sample_dirichlet(clone, arms, held, size)
            try:
                cmp_rows(replay, "popularity_sampler", "sampler replay")
            except Violation:
                events.append("arbitrated")
                _mean_test(mab, ref.moments_dirichlet(want), "popularity_sampler", "step %d" % step)
    elif name == "ThompsonSampling":
        want = r.thompson()
        got = {a: (imp.arm_to_success_count[a], imp.arm_to_fail_count[a]) for a in imp.arm_to_success_count}
        if list(got) != arms or list(imp.arm_to_fail_count) != arms:
            raise Violation("thompson_counts", "step %d: keys %r / %r, arms %r"
                            % (step, list(got), list(imp.arm_to_fail_count), arms))
        for a in arms:
            if not (ops.float_eq(got[a][0], want[a][0]) and ops.float_eq(got[a][1], want[a][1])):
                raise Violation("thompson_counts", "step %d: arm %r Beta parameters %r, reference %r"
                                % (step, a, tuple(map(ops.py, got[a])), want[a]))
        replay = ref.sample_beta(clone, arms, want, size)
        try:
            cmp_rows(replay, "thompson_sampler", "sampler replay")
        except Violation:
            events.append("arbitrated")
            _mean_test(mab, ref.moments_beta(want), "thompson_sampler", "step %d" % step)
    elif name == "Random":
        replay = ref.sample_uniform(clone, arms, size)
        try:
            cmp_rows(replay, "random_sampler", "sampler replay")
        except Violation:
            events.append("arbitrated")
            _mean_test(mab, ref.moments_uniform(arms), "random_sampler", "step %d" % step)
        for g in got_rows:
            if not all(0.0 <= v < 1.0 for v in g.values()):
                raise Violation("random_range", "step %d: %r" % (step, g))
    # predict agrees with the documented arg-max of a draw taken from the same position
    twin2 = copy.deepcopy(mab)
    p = ops.apply_op(twin2, ["predict", query])
    if ops.is_exc(p):
        raise Violation("unexpected_exception", "step %d: predict raised %r" % (step, p))
    preds = [p[1]] if p[0] == "S" else p[1]
    if len(preds) != len(got_rows):
        raise Violation("shape", "step %d: predict gave %d results for %r rows" % (step, len(preds), mq))
    for pr in preds:
        if pr not in arms:
            raise Violation("predict_member", "step %d: predicted %r not in %r" % (step, pr, arms))


def evaluate(plan, ctx):
    cfg = plan["config"]
    mab = ops.build(cfg)
    r = ref.ContextFreeRef(cfg["arms"])
    events = ["lp=" + cfg["lp"][0], "family=" + plan["family"]]
    nontrivial = False
    observed = set()
    trained_since_change = False   # a training call happened, then an arm change
    change_after_training = False
    removed = set()
    rdt = plan.get("reward_dtype")
    if rdt:
        events.append("rewards_as_" + rdt)
    das = plan.get("decisions_as")
    if das:
        events.append("decisions_as_" + das)

    def dec_of(values):
        if das == "Int64":
            import pandas as pd
            return pd.Series(list(values), dtype="Int64")
        if das == "int64":
            return np.array(list(values), dtype=np.int64)
        return values

    for i, op in enumerate(plan["ops"]):
        if das and op[0] in ("fit", "partial_fit", "fit_tiled", "partial_fit_tiled"):
            t = op[4] if op[0].endswith("_tiled") else 1
            rw = list(op[2]) * t
            try:
                getattr(mab, op[0].replace("_tiled", ""))(dec_of(list(op[1]) * t),
                                                          np.asarray(rw, dtype=rdt) if rdt else rw)
                out = None
            except Exception as e:
                out = ops.Exc(e)
        elif rdt and op[0] in ("fit", "partial_fit"):
            out = ops.apply_op(mab, [op[0], op[1], {"array": op[2], "dtype": rdt}, op[3]])
        elif rdt and op[0] in ("fit_tiled", "partial_fit_tiled"):
            out = ops.apply_op(mab, [op[0][:-6], list(op[1]) * op[4], {"array": list(op[2]) * op[4], "dtype": rdt},
                                     None])
        else:
            out = ops.apply_op(mab, op)
        if ops.is_exc(out):
            raise Violation("unexpected_exception", "step %d %s raised %r" % (i, op[0], out))
        if op[0].endswith("_tiled"):
            events.append("tiled_training_call")
            op = [op[0][:-6], list(op[1]) * op[4], list(op[2]) * op[4], None]
        k = op[0]
        if k == "fit":
            r.fit(op[1], op[2])
            observed = set(op[1])
            if change_after_training:
                nontrivial = True
        elif k == "partial_fit":
            if r.fitted and any(a in observed and a not in op[1] for a in r.arms):
                nontrivial = True
                events.append("pf_omits_observed_arm")
            r.partial_fit(op[1], op[2])
            observed |= set(op[1])
            if change_after_training:
                nontrivial = True
                events.append("arm_change_between_trainings")
        elif k == "add_arm":
            if op[1] in removed:
                nontrivial = True
                events.append("re_added_label")
            r.add_arm(op[1])
            observed.discard(op[1])
            if r.fitted:
                change_after_training = True
        elif k == "remove_arm":
            r.remove_arm(op[1])
            removed.add(op[1])
            observed.discard(op[1])
            if r.fitted:
                change_after_training = True
        if r.fitted:
            check_state(mab, r, cfg, plan["family"], plan["mq"], i, events)
    return Result(nontrivial, sorted(set(events)))


SUBCHECKS = [SubCheck("history", strategy, evaluate, quick=8000, thorough=80000)]
KNOWN = {}

MANIFEST = {
    "level": "exploration",
    "technique": "property-based testing: model-based generated call histories (Hypothesis) vs pure-Python "
                 "reference statistics, plus sampler replay on a cloned generator",
    "design_ref": "DESIGN.md section 4, C01",
    "text": "Generated histories (fit / partial_fit with batches that omit arms / add / remove / re-add, six "
            "policies, exact and general float rewards) are compared after every step with an independent "
            "reference model of the documented statistics; randomised outputs are reproduced by replaying the "
            "documented sampler with the reference parameters on a clone of the bandit's generator. This is "
            "search, not proof: it holds on every history generated.",
    "note": "Trusted: numpy's Generator for the sampler replay, the reference model in vlib/ref.py. Decisions are "
            "drawn from the current arms. Tolerances: 1e-12 (exact rewards), 1e-9*max|r| (floats).",
}
