"""C04 - seeded runs are reproducible and bandit instances are isolated."""
import hashlib
import json
import os
import shutil
import subprocess
import sys
import tempfile

from hypothesis import strategies as st

from vlib import env, gen, ops, twin
from vlib.runner import Result, SubCheck, Violation

PROPERTY = "C04"
LEVEL = "exploration"
RULE = ("A case is 2..3 scenario programs (constructor arguments incl. default-constructed policy tuples such as "
        "TreeBandit(), Radius(), LSHNearest(), Clusters(); a generated history with literal data; different seeds) plus "
        "a merge order of their steps, construction included. inproc: every program's output trace in the interleaved "
        "run must equal its solo run exactly (solo runs happen in the same process, before). xproc: batches of cases "
        "are executed in fresh interpreters under PYTHONHASHSEED 0, 1 and random, solo and interleaved, and the "
        "sha256 digests of the canonical traces (floats as hex) must agree with each other and with the in-process "
        "run. hashseed: programs with str arms only and tie-prone warm starts (1-2 features from {-1,1,2}), solo, in three "
        "interpreters, one program in four with n_jobs=2 on a process-based backend (loky / multiprocessing: workers with "
        "their own hash salt; LSH with 54..64 hyperplanes). Contexts on a small grid with duplicated columns make equal-gain tree splits (where random_state "
        "decides) frequent. Non-trivial: two bandits alive at once with different seeds and a training or randomised "
        "step of one executed after the construction of the other.")
ASSUMPTIONS = [
    "single-threaded numerical kernels (OMP/BLAS threads = 1), as the property assumes",
    "TreeBandit with Thompson / epsilon>0 is kept at n_jobs=1 (thread-scheduling dependence is C05's finding D7)",
    "2-3 concurrent bandits and three hash seeds sample 'whatever other bandit objects' and 'whatever hash seed'",
]
NT_FLOOR = 0.3


@st.composite
def program_st(draw, seed_pool, like=None):
    nps = gen.ALL_NP if like is None else [like["np"][0] if like["np"] else None]
    cfg = draw(gen.config_st(metrics=gen.SAFE_METRICS, nps=nps, arm_kinds=("int", "str", "float", "mix"), max_arms=4, with_binarizer=True, scale_ok=True,
                             defaults_ok=True, seeds=st.sampled_from(seed_pool), n_jobs_choices=(1, 1, 1, 1, 2)))
    if like is not None and like["np"] is not None:
        # same neighbourhood policy arguments as the first program: state shared between instances of one class
        # (class-level defaults, caches) is then exercised by construction
        cfg["np"] = json.loads(json.dumps(like["np"]))
        if cfg["np"][0] == "TreeBandit" and cfg["lp"][0] not in ops.TREE_COMPATIBLE:
            cfg["lp"] = ["UCB1", {"alpha": 1}]
        if cfg["np"][1].get("no_nhood_prob_of_arm") and len(cfg["np"][1]["no_nhood_prob_of_arm"]) != len(cfg["arms"]):
            cfg["np"][1].pop("no_nhood_prob_of_arm")
    if cfg["lp"][0] == "LinTS" and draw(st.integers(0, 2)) == 0:
        # an almost absent penalty: with the duplicated feature column below the covariance has no Cholesky factor and
        # the documented sampler fails - identically for equal seeds, whatever else happens in the process
        cfg["lp"][1]["l2_lambda"] = draw(st.sampled_from([1e-12, 1e-9]))
    h = gen.History(draw, cfg, max_rows=8, grid=draw(st.sampled_from(["small", "int"])))
    h.fit() if draw(st.integers(0, 3)) else h.partial_fit()
    for _ in range(draw(st.integers(1, 6))):
        gen.step_any(h, gen.TRAIN_KINDS + gen.ARM_KINDS + gen.QUERY_KINDS * 3 + gen.WARM_KINDS, True)
    h.predict_expectations()
    h.predict()
    ops_ = h.ops
    if ops.is_contextual(cfg) and draw(st.booleans()):
        # duplicate the first feature column everywhere: equal-gain splits, where the seed of the tree decides
        for op in ops_:
            for idx in ((3,) if op[0] in ops.TRAIN_OPS else (1,) if op[0] in ("predict", "predict_expectations") else ()):
                if op[idx] is not None:
                    op[idx] = [row + [row[0]] for row in op[idx]]
    return {"config": cfg, "ops": ops_}


@st.composite
def case_st(draw, tier):
    n = draw(st.integers(2, 3))
    seeds = draw(st.lists(st.integers(0, 2 ** 20), min_size=n, max_size=n, unique=True))
    progs = [draw(program_st([seeds[0]]))]
    like = progs[0]["config"] if draw(st.integers(0, 2)) == 0 else None
    progs += [draw(program_st([s], like)) for s in seeds[1:]]
    steps = []
    for i, p in enumerate(progs):
        steps += [i] * (len(p["ops"]) + 1)
    order = draw(gen.perm_st(steps))
    return {"programs": progs, "order": list(order)}


def strategy(tier, ctx):
    return case_st(tier)


def run_solo(p):
    return ops.run_ops(ops.build(p["config"]), p["ops"])


def run_interleaved(case):
    progs = case["programs"]
    mabs = [None] * len(progs)
    pos = [0] * len(progs)
    outs = [[] for _ in progs]
    for i in case["order"]:
        if mabs[i] is None:
            mabs[i] = ops.build(progs[i]["config"])
        else:
            outs[i].append(ops.apply_op(mabs[i], progs[i]["ops"][pos[i]]))
            pos[i] += 1
    return outs


def nontrivial(case):
    built = set()
    pos = [0] * len(case["programs"])
    for i in case["order"]:
        if i not in built:
            built.add(i)
            continue
        op = case["programs"][i]["ops"][pos[i]]
        pos[i] += 1
        if len(built) >= 2 and (op[0] in ops.TRAIN_OPS or op[0] in ("predict", "predict_expectations")):
            return True
    return False


def evaluate(case, ctx):
    solo = [run_solo(p) for p in case["programs"]]
    for j, p in enumerate(case["programs"]):
        for i, o in enumerate(solo[j]):
            if ops.is_exc(o) and o[1] == "LinAlgError" and p["config"]["lp"][0] == "LinTS" \
                    and p["config"]["lp"][1].get("l2_lambda", 1) < 1e-6:
                continue        # the expected numerical failure (compared like any other output below)
            if ops.is_exc(o):
                raise Violation("unexpected_exception", "program %d op %d %s raised %s" % (j, i, p["ops"][i][0], ops.short(o)),
                                bucket="unexpected_exception:%s:%s" % (p["ops"][i][0], o[1]))
    inter = run_interleaved(case)
    for j, p in enumerate(case["programs"]):
        d = ops.first_diff(solo[j], inter[j])
        if d is not None:
            raise Violation("interference", "program %d (%s / %s, seed %r) op %d %s: alone %s, interleaved with %d other "
                            "bandit(s) %s" % (j, p["config"]["lp"][0], p["config"]["np"], p["config"]["seed"], d,
                                              ops.short(p["ops"][d], 100), ops.short(solo[j][d]),
                                              len(case["programs"]) - 1, ops.short(inter[j][d])),
                            bucket="interference:" + (p["config"]["np"][0] if p["config"]["np"] else "none"))
        again = run_solo(p)
        d = ops.first_diff(solo[j], again)
        if d is not None:
            raise Violation("not_reproducible", "program %d (%s / %s) op %d: first run %s, second run %s"
                            % (j, p["config"]["lp"][0], p["config"]["np"], d, ops.short(solo[j][d]), ops.short(again[d])))
    ev = []
    for p in case["programs"]:
        ev += twin.pair_events(p["config"])
        if p["config"]["np"] and (p["config"]["np"][1] == {} or p["config"]["np"][1].get("_default")):
            ev.append("default_constructed_policy")
    return Result(nontrivial(case), ev)


# ---- cross-process ----------------------------------------------------------------------------------------------------

CHILD = r"""
import json, sys, hashlib
sys.path.insert(0, sys.argv[2]); sys.path.insert(0, sys.argv[1])
from vlib import env; env.setup_paths()
from vlib import ops
from checks import c04
cases = json.load(open(sys.argv[3]))
res = []
for case in cases:
    solo = [ops.hexfloat(c04.run_solo(p)) for p in case['programs']]
    inter = ops.hexfloat(c04.run_interleaved(case))
    res.append({'solo': [c04.digest(s) for s in solo], 'inter': [c04.digest(s) for s in inter]})
json.dump(res, open(sys.argv[4], 'w'))
"""


def digest(trace):
    return hashlib.sha256(json.dumps(trace, sort_keys=True, default=str).encode()).hexdigest()


@st.composite
def xproc_st(draw, tier):
    n = 6 if tier == "quick" else 8
    return {"cases": [draw(case_st(tier)) for _ in range(n)]}


def xproc_strategy(tier, ctx):
    return xproc_st(tier)


def evaluate_xproc(plan, ctx):
    cases = plan["cases"]
    here = [{"solo": [digest(ops.hexfloat(run_solo(p))) for p in c["programs"]],
             "inter": [digest(ops.hexfloat(s)) for s in run_interleaved(c)]} for c in cases]
    d = tempfile.mkdtemp(prefix="verif_c04_")
    try:
        with open(os.path.join(d, "cases.json"), "w") as f:
            json.dump(cases, f)
        procs = []
        for hs in ("0", "1", "random"):
            out = os.path.join(d, "out_%s.json" % hs)
            e = env.child_env({"PYTHONHASHSEED": hs, "_VERIF_PINNED": "1"})
            procs.append((hs, out, subprocess.Popen([sys.executable, "-c", CHILD, env.repo_dir(), env.VERIF_DIR,
                                                     os.path.join(d, "cases.json"), out],
                                                    stdout=subprocess.PIPE, stderr=subprocess.PIPE, env=e)))
        results = {"here": here}
        for hs, out, p in procs:
            _, err = p.communicate()
            if p.returncode != 0 or not os.path.exists(out):
                raise Violation("child_failed", "fresh interpreter (PYTHONHASHSEED=%s) failed: %s"
                                % (hs, err.decode()[-1500:]))
            results[hs] = json.load(open(out))
    finally:
        shutil.rmtree(d, ignore_errors=True)
    for i, c in enumerate(cases):
        for j, p in enumerate(c["programs"]):
            seen = {}
            for where, r in results.items():
                seen[where + "/solo"] = r[i]["solo"][j]
                seen[where + "/interleaved"] = r[i]["inter"][j]
            if len(set(seen.values())) != 1:
                groups = {}
                for k, v in seen.items():
                    groups.setdefault(v[:10], []).append(k)
                raise Violation("digest_differs", "case %d program %d (%s / %s, seed %r): digests differ between runs: %r"
                                % (i, j, p["config"]["lp"][0], p["config"]["np"], p["config"]["seed"], groups),
                                bucket="digest_differs:" + (p["config"]["np"][0] if p["config"]["np"] else "none"))
    warm = sum(1 for c in cases for p in c["programs"] for op in p["ops"] if op[0] == "warm_start")
    return Result(any(nontrivial(c) for c in cases) or warm > 0,
                  ["cases=%d" % len(cases)] + (["with_warm_start"] if warm else []))


def minimize_xproc(plan, fails):
    for c in plan["cases"]:
        small = {"cases": [c]}
        if fails(small) is not None:
            return small
    return plan


# ---- hash-seed dependence: string arms only (the only label type whose hash is randomised), tie-prone warm starts ----

@st.composite
def hash_program_st(draw):
    nps = [None, None, None, None, "Radius", "KNearest", "LSHNearest", "Clusters", "TreeBandit"]
    cfg = draw(gen.config_st(metrics=gen.SAFE_METRICS, nps=nps, arm_kinds=("str",), min_arms=3, max_arms=6, with_binarizer=True, scale_ok=True,
                             defaults_ok=True))
    if draw(st.integers(0, 3)) == 0 and not (cfg["np"] and cfg["np"][0] == "TreeBandit"):
        # work handed to other interpreters (process-based joblib backends): each worker process has its own string
        # hash salt unless PYTHONHASHSEED pins it, so anything keyed by hash() shows here
        cfg["n_jobs"] = 2
        cfg["backend"] = draw(st.sampled_from([None, "loky", "multiprocessing"]))
        if cfg["np"] and cfg["np"][0] == "LSHNearest" and draw(st.booleans()):
            cfg["np"][1]["n_dimensions"] = draw(st.sampled_from([54, 60, 64]))
    h = gen.History(draw, cfg, max_rows=8, grid="small")
    h.fit(omit=True) if draw(st.integers(0, 3)) else h.partial_fit(omit=True)
    for _ in range(draw(st.integers(2, 8))):
        k = draw(st.sampled_from(["warm_start", "warm_start", "warm_start", "partial_fit", "fit", "add_arm", "add_arm",
                                  "remove_arm", "predict", "predict_expectations", "cold_arms"]))
        if k == "warm_start":
            if h.can_warm():
                # one or two features from a tiny grid: exact ties between arm distances are the rule
                nf = draw(st.integers(1, 2))
                feats = [[a, draw(st.lists(st.sampled_from([1, 2, -1]), min_size=nf, max_size=nf))] for a in h.arms]
                h.ops.append(["warm_start", feats, draw(st.sampled_from([0.5, 1.0, 0.75, 0.25]))])
        elif k in ("fit", "partial_fit"):
            getattr(h, k)(omit=True)
        elif k == "cold_arms":
            h.cold_arms()
        else:
            gen.step_any(h, [k], True)
    h.predict_expectations()
    h.predict()
    h.cold_arms()
    return {"config": cfg, "ops": h.ops}


@st.composite
def hashseed_st(draw, tier):
    n = 10
    progs = [draw(hash_program_st()) for _ in range(n)]
    return {"cases": [{"programs": [p], "order": [0] * (len(p["ops"]) + 1)} for p in progs]}


def hashseed_strategy(tier, ctx):
    return hashseed_st(tier)


SUBCHECKS = [
    SubCheck("inproc", strategy, evaluate, quick=2500, thorough=40000),
    SubCheck("xproc", xproc_strategy, evaluate_xproc, quick=16, thorough=160, workers=8, quick_s=70, shrink=False,
             minimize=minimize_xproc),
    SubCheck("hashseed", hashseed_strategy, evaluate_xproc, quick=32, thorough=320, workers=16, quick_s=70,
             shrink=False, minimize=minimize_xproc),
]
KNOWN = {}

MANIFEST = {
    "level": "exploration",
    "technique": "property-based testing: generated scenario programs and interleavings (Hypothesis), differential "
                 "comparison of solo vs interleaved traces in-process and of trace digests across fresh interpreters "
                 "with PYTHONHASHSEED 0 / 1 / random",
    "design_ref": "DESIGN.md section 4, C04",
    "text": "Generated programs over every policy pair (incl. default-constructed tuples) are run alone, interleaved "
            "with other bandits in a generated merge order, and in fresh interpreters under three hash seeds; all "
            "traces of a program must coincide exactly. Search, not proof.",
    "note": "Assumes OMP/BLAS threads = 1 (the property's own assumption). The interpreter for the cross-process runs is "
            "the same /venv python started fresh.",
}
