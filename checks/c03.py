"""C03 - Radius and KNearest use exactly the observations in the neighbourhood."""
import itertools
import math

from hypothesis import strategies as st

import numpy as np

from vlib import gen, ops, streams
from vlib.runner import Result, SubCheck, Violation

PROPERTY = "C03"
LEVEL = "exploration"
RULE = ("One case in twelve: a Radius history of more than a thousand rows (the first fit repeated) queried at integer multiples of stored rows with the radius exactly on their distance (boundary rows on one ray with the query). "
        "Integer-grid contexts (exact distances, many ties and duplicates), metric in {cityblock, chebyshev, "
        "sqeuclidean, euclidean}, history fit + 0..3 partial_fit, queries that include stored rows. Radius is placed "
        "ON a realised query-row distance, strictly between two realised distances, or below the minimum; k in 1..n. "
        "Oracle: membership by exact integer arithmetic (euclidean: correctly-rounded sqrt of the exact integer), and "
        "the expectations of a fresh bandit with the same learning policy and no neighbourhood policy fit on exactly "
        "those rows, constructed with the per-row seed the neighbourhood policy derives from the bandit's generator so that "
        "randomised learning policies (Softmax, Thompson, Popularity, Random, epsilon>0, LinTS) are compared by value too; "
        "the oracle is evaluated after the last training call and after a drawn subset of the earlier ones. KNearest: rows closer than the k-th distance are mandatory, rows at it optional; any valid "
        "completion (<= 200 enumerated) is accepted. Empty neighbourhood: all NaN; predict returns an arm with "
        "positive configured probability; sub-check 'empty': arm frequencies over 600 empty rows within 6 sigma of "
        "the configured distribution. Non-trivial: a stored row exactly on the radius, or a tie at the k-th distance, "
        "or a neighbourhood mixing rows of fit and of a later partial_fit, or an empty neighbourhood.")
ASSUMPTIONS = [
    "only metrics whose distances are exactly computable on the integer grid are generated, as the property says",
    "KNearest cases with more than 200 valid tie completions are skipped and counted",
    "randomised learning policies underneath are compared exactly through the per-row seed the neighbourhood policy "
    "derives from the bandit's generator (LinTS included, 1e-9 tolerance)",
    "no arm changes (C03's quantifier is fit + partial_fit*)",
]
NT_FLOOR = 0.3


def exact_dist(metric, a, b):
    diffs = [abs(x - y) for x, y in zip(a, b)]
    if metric == "cityblock":
        return sum(diffs)
    if metric == "chebyshev":
        return max(diffs)
    sq = sum(x * x for x in diffs)
    if metric == "sqeuclidean":
        return sq
    return math.sqrt(sq)       # correctly rounded sqrt of an exact integer; monotone


DET_LPS = ["EpsilonGreedy", "UCB1", "LinUCB", "LinGreedy"]
# randomised policies are compared too: the library seeds a fresh generator per query row from a seed drawn from the
# bandit's generator, so a from-scratch bandit constructed with that row seed must reproduce the draw exactly.
# (LinTS included since the repair of D8/D18: fit points the arm models at the per-row generator.)
RND_LPS = ["EpsilonGreedy", "Softmax", "Popularity", "ThompsonSampling", "Random", "LinGreedy", "LinTS"]


@st.composite
def plan_st(draw, tier):
    kind, arms = draw(gen.arms_st(("int", "str"), 1, 4))
    if draw(st.integers(0, 2)):
        lp = draw(gen.lp_st(DET_LPS, arms, deterministic=True))
    else:
        lp = draw(gen.lp_st(RND_LPS, arms, deterministic=False))
    metric = draw(st.sampled_from(gen.EXACT_METRICS))
    which = draw(st.sampled_from(["Radius", "Radius", "KNearest"]))
    d = draw(st.integers(1, 3))
    # one case in twelve: a Radius history of more than a thousand rows (the first fit, repeated), queried at integer
    # multiples of stored rows with the radius exactly on their distance - rows on the boundary that lie on one ray with
    # the query, where any pruning by norms or bounding boxes is tight
    long_history = draw(st.integers(0, 11)) == 0
    if long_history:
        which = "Radius"
        metric = draw(st.sampled_from(["euclidean", "euclidean", "sqeuclidean", "cityblock", "chebyshev"]))
        d = draw(st.integers(2, 3))
    cfg = {"arms": arms, "lp": lp, "np": [which, {"metric": metric}], "seed": draw(st.integers(0, 2 ** 20)),
           "n_jobs": 1, "backend": None, "arm_kind": kind}
    # (one case in five on integers just above 2**24 - amounts in cents, identifiers: exact in double precision, not all
    # representable in single precision)
    # (context-free learning policies only: a regression on features of size 1e7 is ill-conditioned, LinTS then fails in
    # its Cholesky factorisation - a numerical limit of the policy, not a neighbourhood question)
    grid = draw(st.sampled_from(["int", "int", "int", "int", "f32edge"])) if lp[0] not in ops.LINEAR and \
        not long_history else "int"
    h = gen.History(draw, cfg, grid=grid, d=d, max_rows=8, exact_only=True)
    h.fit()
    for _ in range(draw(st.integers(0, 3))):
        h.partial_fit()
    stored = [row for op in h.ops for row in op[3]]
    m = draw(st.integers(1, 4))
    queries = []
    for _ in range(m):
        if draw(st.booleans()):
            queries.append(list(draw(st.sampled_from(stored))))
        else:
            queries.append(draw(st.lists(st.integers(-4, 4) if grid == "int" else
                                         st.integers(-8, 8).map(lambda k: 16777216 + 3 * k + 1),
                                         min_size=d, max_size=d)))
    ray = []
    if long_history:
        nz = [x for x in stored if any(x)] or [[1] * d]
        queries = []
        for _ in range(m):
            x = draw(st.sampled_from(nz))
            k = draw(st.sampled_from([2, 3, -1, 4]))
            queries.append([k * v for v in x])
            ray.append(exact_dist(metric, queries[-1], x))
    dists = sorted({exact_dist(metric, q, x) for q in queries for x in stored})
    if which == "Radius":
        mode = draw(st.sampled_from(["on", "on", "between", "below"]))
        if ray and draw(st.integers(0, 3)):
            mode = "ray"
            r = draw(st.sampled_from(ray))
        elif mode == "on":
            r = draw(st.sampled_from(dists))
            if r == 0:
                r = 0.5
        elif mode == "between":
            i = draw(st.integers(0, len(dists) - 1))
            r = (dists[i] + dists[i + 1]) / 2.0 if i + 1 < len(dists) else dists[i] + 0.5
            if r <= 0:
                r = 0.5
        else:
            pos = [x for x in dists if x > 0]
            r = min(pos) / 2.0 if pos else 0.25
        cfg["np"][1]["radius"] = float(r)
        if draw(st.integers(0, 2)) == 0:
            cfg["np"][1]["no_nhood_prob_of_arm"] = draw(gen.prob_list_st(len(arms)))
    else:
        cfg["np"][1]["k"] = draw(st.integers(1, len(h.ops[0][1])))     # k <= rows of the first fit
    # the oracle is evaluated after the last training call and after a drawn subset of the earlier ones (a stale
    # cache filled by an early query must not hide rows added later)
    early = [i for i in range(len(h.ops) - 1) if draw(st.booleans())]
    cdt = None
    if draw(st.integers(0, 3)) == 0:
        # stored and query contexts as arrays of a narrow or unsigned type (pixel values, counts): distances are those
        # of the numbers, not of the type (for unsigned types the whole data set is shifted to be non-negative)
        cdt = draw(st.sampled_from(["uint8", "int8", "uint16", "float32", "int32", "uint32"] if grid == "int" else
                                   ["int32", "uint32", "int64", "float64"]))
        if cdt.startswith("u"):
            if long_history:
                cdt = "uint16"      # (multiples of stored rows reach +-12: distances are invariant under the shift)
            sh = 12 if long_history else 4
            for op in h.ops:
                op[3] = [[v + sh for v in row] for row in op[3]]
            queries = [[v + sh for v in q] for q in queries]
    tile = None
    if long_history:
        tile = -(-1040 // len(h.ops[0][1]))
    return {"config": cfg, "ops": h.ops, "queries": queries, "check_after": early, "ctx_dtype": cdt, "tile": tile}


def rendered(plan, rows):
    """The context rows as the plan says they are handed over (list of lists, or an ndarray of the drawn dtype)."""
    if plan.get("ctx_dtype"):
        return {"array": rows, "dtype": plan["ctx_dtype"]}
    return rows


def strategy(tier, ctx):
    return plan_st(tier)


def fresh_expectations(cfg, dec, rew, cx, q, seed=None):
    """Expectations of the learning policy alone, trained from scratch on the given rows (seeded with the row seed
    the neighbourhood policy derives for this query, so randomised policies draw the same numbers)."""
    from mabwiser.mab import MAB
    m = MAB(list(cfg["arms"]), ops.make_lp(cfg["lp"]), None, cfg["seed"] if seed is None else seed)
    if cfg["lp"][0] in ops.LINEAR:
        m.fit(dec, rew, cx)
        return ops.canon_expectations(m.predict_expectations([q]))
    m.fit(dec, rew)
    return ops.canon_expectations(m.predict_expectations())


def evaluate(plan, ctx):
    cfg = plan["config"]
    which, params = cfg["np"]
    metric = params["metric"]
    mab = ops.build(cfg)
    dec, rew, cx, origin = [], [], [], []
    arms = list(cfg["arms"])
    ev = ["np=" + which, "lp=" + cfg["lp"][0], "metric=" + metric]
    state = {"nt": False, "skipped": False}
    if plan.get("ctx_dtype"):
        ev.append("contexts_as_" + plan["ctx_dtype"])
    if plan.get("tile"):
        ev.append("history_of_more_than_1000_rows")
    for i, op in enumerate(plan["ops"]):
        if i == 0 and plan.get("tile"):
            op = [op[0], op[1] * plan["tile"], op[2] * plan["tile"], [list(r) for r in op[3]] * plan["tile"]]
        o = ops.apply_op(mab, [op[0], op[1], op[2], rendered(plan, op[3])])
        if ops.is_exc(o):
            raise Violation("unexpected_exception", "op %d %s raised %s" % (i, op[0], ops.short(o)))
        dec += op[1]
        rew += op[2]
        cx += op[3]
        origin += [i] * len(op[1])
        if i in plan.get("check_after", []) and (which != "KNearest" or len(cx) >= params["k"]):
            ev.append("checked_between_training_calls")
            check_queries(plan, cfg, mab, arms, dec, rew, cx, origin, ev, state)
    check_queries(plan, cfg, mab, arms, dec, rew, cx, origin, ev, state)
    return Result(state["nt"], ev, state["skipped"])


def check_queries(plan, cfg, mab, arms, dec, rew, cx, origin, ev, state):
    which, params = cfg["np"]
    metric = params["metric"]
    nt = state["nt"]
    skipped = state["skipped"]
    linear = cfg["lp"][0] in ops.LINEAR
    tol = 1e-9 if linear else 0.0
    for q in plan["queries"]:
        dist = [exact_dist(metric, q, x) for x in cx]
        row_seed = int(streams.clone_rng(mab._rng).randint(np.iinfo(np.int32).max, size=1)[0])
        out = ops.apply_op(mab, ["predict_expectations", rendered(plan, [q])])
        if ops.is_exc(out):
            raise Violation("unexpected_exception", "predict_expectations(%r) raised %s" % (q, ops.short(out)))
        got = out[1]
        if [k for k, _ in got] != arms:
            raise Violation("keys", "keys %r, arms %r" % ([k for k, _ in got], arms))
        if which == "Radius":
            r = params["radius"]
            sel = [i for i, dd in enumerate(dist) if dd <= r]
            if any(dd == r for dd in dist):
                nt = True
                ev.append("row_on_boundary")
            if not sel:
                nt = True
                ev.append("empty_neighbourhood")
                if not all(v != v for _, v in got):
                    raise Violation("empty_not_nan", "query %r has no row within radius %r (%s) but got %s"
                                    % (q, r, metric, ops.short(got)))
                p = ops.apply_op(mab, ["predict", rendered(plan, [q])])
                probs = params.get("no_nhood_prob_of_arm")
                if ops.is_exc(p) or p[0] != "S" or p[1] not in arms:
                    raise Violation("empty_predict", "predict on an empty neighbourhood gave %s" % ops.short(p))
                if probs is not None and probs[arms.index(p[1])] == 0:
                    raise Violation("empty_predict_zero_prob", "predict drew arm %r whose configured probability is 0 "
                                    "(%r)" % (p[1], probs))
                continue
            candidates = [sel]
        else:
            k = params["k"]
            sd = sorted(dist)
            dk = sd[k - 1]
            mandatory = [i for i, dd in enumerate(dist) if dd < dk]
            optional = [i for i, dd in enumerate(dist) if dd == dk]
            need = k - len(mandatory)
            if len(optional) > need:
                nt = True
                ev.append("tie_at_kth_distance")
            if math.comb(len(optional), need) > 200:
                skipped = True
                ev.append("too_many_completions")
                continue
            candidates = [sorted(mandatory + list(c)) for c in itertools.combinations(optional, need)]
        if len({origin[i] for i in candidates[0]}) > 1:
            nt = True
            ev.append("mixes_fit_and_partial_fit_rows")
        ok = False
        wants = []
        for sel in candidates:
            want = fresh_expectations(cfg, [dec[i] for i in sel], [rew[i] for i in sel], [cx[i] for i in sel], q,
                                      row_seed)
            wants.append((sel, want))
            if ops.same(got, want, rtol=tol, atol=tol):
                ok = True
                break
        if not ok:
            raise Violation("neighbourhood_value",
                            "%s %s query %r: library %s; oracle rows %r -> %s (%d valid completion(s)); distances %r"
                            % (which, {k: v for k, v in params.items()}, q, ops.short(got), wants[0][0],
                               ops.short(wants[0][1]), len(candidates), dist),
                            bucket="neighbourhood_value:" + which)
        # predict must pick among the arms (arg-max relation is C09's)
        p = ops.apply_op(mab, ["predict", rendered(plan, [q])])
        if ops.is_exc(p) or p[1] not in arms:
            raise Violation("predict_member", "predict(%r) gave %s" % (q, ops.short(p)))
        state["nt"], state["skipped"] = nt, skipped
    state["nt"], state["skipped"] = nt or state["nt"], skipped or state["skipped"]


# ---- empty-neighbourhood distribution ----------------------------------------------------------------------

@st.composite
def empty_plan_st(draw, tier):
    kind, arms = draw(gen.arms_st(("int", "str"), 1, 4))
    lp = draw(gen.lp_st(gen.ALL_LP, arms))
    metric = draw(st.sampled_from(gen.EXACT_METRICS))
    probs = draw(st.one_of(st.none(), gen.prob_list_st(len(arms))))
    which = draw(st.sampled_from(["Radius", "LSHNearest"]))
    if which == "Radius":
        npd = ["Radius", {"radius": draw(st.sampled_from([0.5, 1, 3])), "metric": metric}]
    else:
        npd = ["LSHNearest", {"n_dimensions": 1, "n_tables": 1}]
    if probs is not None:
        npd[1]["no_nhood_prob_of_arm"] = probs
    cfg = {"arms": arms, "lp": lp, "np": npd, "seed": draw(st.integers(0, 2 ** 20)),
           "n_jobs": draw(st.sampled_from([1, 1, 2])), "backend": None, "arm_kind": kind}
    if cfg["n_jobs"] != 1:
        cfg["backend"] = "threading"
    h = gen.History(draw, cfg, grid="int", d=draw(st.integers(1, 2)), max_rows=5)
    h.fit()
    return {"config": cfg, "ops": h.ops, "n": 600}


def empty_strategy(tier, ctx):
    return empty_plan_st(tier)


def evaluate_empty(plan, ctx):
    cfg = plan["config"]
    mab = ops.build(cfg)
    for op in plan["ops"]:
        o = ops.apply_op(mab, op)
        if ops.is_exc(o):
            raise Violation("unexpected_exception", "%s raised %s" % (op[0], ops.short(o)))
    arms = list(cfg["arms"])
    d = len(plan["ops"][0][3][0])
    n = plan["n"]
    if cfg["np"][0] == "Radius":
        far = [[100] * d] * n
    else:
        # one hyperplane, one table: rows on the side of the plane without stored rows have no collision
        plane = mab._imp.table_to_plane[0]
        import numpy as np
        stored = np.asarray(plan["ops"][0][3], dtype=float)
        sides = set(((stored @ plane) > 0).ravel().tolist())
        if len(sides) == 2:
            return Result(False, ["lsh_both_sides_occupied"], skipped=True)
        w = plane[:, 0]
        v = (w if (True not in sides) else -w)
        far = [[float(x) for x in v]] * n
    e = ops.apply_op(mab, ["predict_expectations", far[:5]])
    if ops.is_exc(e):
        raise Violation("unexpected_exception", "predict_expectations raised %s" % ops.short(e))
    for row in e[1]:
        if [k for k, _ in row] != arms or not all(v != v for _, v in row):
            raise Violation("empty_not_nan", "empty neighbourhood returned %s" % ops.short(row))
    p = ops.apply_op(mab, ["predict", far])
    if ops.is_exc(p) or p[0] != "L" or len(p[1]) != n:
        raise Violation("empty_predict", "predict on %d empty rows gave %s" % (n, ops.short(p)))
    probs = cfg["np"][1].get("no_nhood_prob_of_arm") or [1.0 / len(arms)] * len(arms)
    for a, pr in zip(arms, probs):
        c = sum(1 for x in p[1] if x == a)
        if pr == 0 and c:
            raise Violation("empty_predict_zero_prob", "arm %r has configured probability 0 but was drawn %d times" % (a, c))
        sigma = math.sqrt(n * pr * (1 - pr))
        if abs(c - n * pr) > 6 * sigma + 1e-9:
            raise Violation("empty_predict_distribution", "arm %r drawn %d of %d times, configured probability %r "
                            "(6 sigma = %.1f)" % (a, c, n, pr, 6 * sigma))
    if any(x not in arms for x in p[1]):
        raise Violation("empty_predict", "predict returned a non-arm")
    return Result(True, ["np=" + cfg["np"][0], "probs=" + ("given" if cfg["np"][1].get("no_nhood_prob_of_arm") else "uniform"),
                         "n_jobs=%d" % cfg["n_jobs"]])


SUBCHECKS = [
    SubCheck("neighbourhood", strategy, evaluate, quick=8000, thorough=100000),
    SubCheck("empty", empty_strategy, evaluate_empty, quick=600, thorough=6000),
]
KNOWN = {}

MANIFEST = {
    "level": "exploration",
    "technique": "property-based testing: generated integer-grid histories with the radius placed on realised "
                 "distances (Hypothesis) vs an exact-integer membership oracle and a from-scratch bandit on the "
                 "selected rows",
    "design_ref": "DESIGN.md section 4, C03",
    "text": "For generated histories, metrics and queries - with the radius engineered to lie exactly on, between or "
            "below realised distances and k with ties - the returned expectations must equal those of the learning "
            "policy trained from scratch on the oracle-selected rows (any valid tie completion for KNearest); empty "
            "neighbourhoods must be all-NaN and predict must follow the configured distribution. Search, not proof.",
    "note": "Trusted: exact integer distance arithmetic in the check; a context-free / linear MAB without "
            "neighbourhood policy as the 'trained from scratch' reference (its own statistics are C01/C02's subject).",
}
