"""C02 - linear policies are exact per-arm ridge regressions with the stated bonus."""
import copy
import math

import numpy as np
from hypothesis import strategies as st

from vlib import gen, ops, ref
from vlib.runner import Result, SubCheck, Violation

PROPERTY = "C02"
LEVEL = "exploration"
RULE = ("Generated (policy in {LinGreedy(eps=0), LinUCB(alpha>=0), LinTS(alpha in {1e-9,1e-7,0.5,1})}, l2_lambda in "
        "{1, 0.25..100}, scale in {False with any split into fit + partial_fit*, True with a single fit}, d in 1..5, "
        "1..4 arms some with zero rows, optional add_arm after fit followed by partial_fit, m in 1..6 query rows) on "
        "integer / half-integer / two-decimal real grid contexts (with scale=True one column in two cases is measured in "
        "tiny units: spread 1e-4 or 1e-8 of the grid). Oracle: per arm, numpy.linalg.solve on the normal equations built "
        "from the raw history (per-arm standardised features when scale=True; zero coefficients and covariance "
        "I/lambda for a never-observed arm); expected x.beta, x.beta + alpha*sqrt(x'A^-1 x); LinTS: |out - x.beta| <= "
        "6*alpha*sqrt(x'A^-1 x) (+1e-9 relative), and the documented Cholesky sampler replayed on a clone of the arm "
        "model's generator as a stronger fast path. Relative tolerance 1e-6. Non-trivial: lambda != 1, or (d = 1 and "
        "m > 1), or >= 1 partial_fit, or an arm with zero rows.")
ASSUMPTIONS = [
    "l2_lambda > 0 as the property states (lambda = 0 is not generated)",
    "contexts on a small grid and lambda >= 0.25 keep cond(X'X + lambda I) small, so 1e-6 relative tolerance is far "
    "above rounding error",
    "LinTS values are judged by a 6-sigma bound around x.beta (false-alarm probability 2e-9 per value); the exact "
    "sampler replay is only used to strengthen a pass, a replay mismatch alone is counted, not reported",
]
NT_FLOOR = 0.3
D2 = "D2-unobserved-arm-covariance"


@st.composite
def many_arms_plan_st(draw, tier):
    """A catalogue that grows past 256 arms through add_arm, then one batch in which every arm occurs."""
    name = draw(st.sampled_from(["LinGreedy", "LinUCB"]))
    lam = draw(st.sampled_from([1, 0.5, 2]))
    lp = [name, dict({"epsilon": 0} if name == "LinGreedy" else {"alpha": draw(st.sampled_from([0, 1]))},
                     l2_lambda=lam, scale=False)]
    n0 = draw(st.sampled_from([250, 255, 256]))
    arms = list(range(1000, 1000 + n0))
    cfg = {"arms": arms, "lp": lp, "np": None, "seed": draw(st.integers(0, 2 ** 20)), "n_jobs": 1, "backend": None,
           "arm_kind": "int"}
    d = draw(st.integers(1, 2))
    val = st.integers(-3, 3)

    def batch(labels):
        return [list(labels), [draw(st.integers(-5, 5)) for _ in labels], [[draw(val) for _ in range(d)] for _ in labels]]

    ops_ = [["fit"] + batch([draw(st.sampled_from(arms)) for _ in range(draw(st.integers(1, 8)))])]
    added = list(range(3000, 3000 + draw(st.sampled_from([3, 6, 10]))))
    ops_ += [["add_arm", a] for a in added]
    everyone = draw(gen.perm_st(arms + added))
    ops_.append(["partial_fit"] + batch(everyone))
    q = [[draw(val) for _ in range(d)] for _ in range(draw(st.integers(1, 2)))]
    return {"config": cfg, "ops": ops_, "query": q}


@st.composite
def plan_st(draw, tier):
    if draw(st.integers(0, 79)) == 0:
        return draw(many_arms_plan_st(tier))
    name = draw(st.sampled_from(["LinGreedy", "LinUCB", "LinUCB", "LinTS", "LinTS"]))
    lam = draw(st.sampled_from([1, 1.0, 0.25, 0.5, 2, 10, 100, 4.5]))
    if draw(st.integers(0, 2)) == 0:
        lam = round(draw(st.floats(0.05, 100, allow_nan=False)), 4)
    scale = draw(st.integers(0, 3)) == 0
    if name == "LinGreedy":
        lp = [name, {"epsilon": 0, "l2_lambda": lam, "scale": scale}]
    elif name == "LinUCB":
        lp = [name, {"alpha": draw(st.sampled_from([0, 1, 0.5, 2.25, 1.0])), "l2_lambda": lam, "scale": scale}]
    else:
        lp = [name, {"alpha": draw(st.sampled_from([1e-9, 1e-7, 0.5, 1])), "l2_lambda": lam, "scale": scale}]
    kind, arms = draw(gen.arms_st(("int", "str"), 1, 4, many_ok=True))
    cfg = {"arms": arms, "lp": lp, "np": None, "seed": draw(st.integers(0, 2 ** 20)), "n_jobs": 1, "backend": None,
           "arm_kind": kind}
    fam = draw(st.sampled_from(["E", "Eint", "F3"]))
    h = gen.History(draw, cfg, reward_family="E" if fam == "F3" else fam,
                    grid=draw(st.sampled_from(["int", "half", "real"])),
                    # (now and then wide contexts: implementations switch algorithms with the size of the system)
                    d=draw(st.sampled_from([1, 2, 3, 4, 5] * 4 + [16, 32, 33, 50])), max_rows=10)
    h.fit()
    if draw(st.booleans()) and h.can_add():
        h.add_arm()
    if not scale:
        for _ in range(draw(st.integers(0, 3))):
            h.partial_fit()
            if draw(st.integers(0, 4)) == 0 and h.can_add():
                h.add_arm()
    ops_ = h.ops
    if fam == "F3":    # general floats of moderate size, drawn after the fact to keep History simple
        for op in ops_:
            if op[0] in ("fit", "partial_fit", "fit_tiled", "partial_fit_tiled"):
                op[2] = draw(st.lists(st.floats(-1e3, 1e3, allow_nan=False, width=64), min_size=len(op[1]),
                                      max_size=len(op[1])))
    if draw(st.integers(0, 9)) == 0:
        # one training call with thousands of rows per arm (the batch tiled): paths that only open up for large calls
        i = draw(st.sampled_from([k for k, op in enumerate(ops_) if op[0] in ("fit", "partial_fit")]))
        ops_[i] = [ops_[i][0] + "_tiled", ops_[i][1], ops_[i][2], ops_[i][3], draw(st.sampled_from([600, 1500, 4200, 9000]))]
    m = draw(st.integers(1, 6))
    q = draw(gen.contexts_st(m, h.d, h.grid))
    if scale and draw(st.booleans()):
        # one feature measured in tiny units: per-arm spread far above (1e-4) or far below (1e-8) the documented
        # 1e-6 "treat as constant" knob of the standardisation, never near it
        col = draw(st.integers(0, h.d - 1))
        f = draw(st.sampled_from([1e-4, 1e-8, 1e-4]))
        for op in ops_:
            if op[0] in ("fit", "partial_fit", "fit_tiled", "partial_fit_tiled"):
                for row in op[3]:
                    row[col] = row[col] * f
        for row in q:
            row[col] = row[col] * f
    if not scale and draw(st.integers(0, 5)) == 0:
        # one feature on a much larger scale than the others (amounts next to flags): X'X + lambda*I is then badly
        # conditioned; the comparison tolerance follows the condition number
        col = draw(st.integers(0, h.d - 1))
        f = draw(st.sampled_from([1e3, 1e4]))
        for op in ops_:
            if op[0] in ("fit", "partial_fit", "fit_tiled", "partial_fit_tiled"):
                for row in op[3]:
                    row[col] = row[col] * f
        for row in q:
            row[col] = row[col] * f
    if not scale and draw(st.integers(0, 5)) == 0 and not any(op[0].endswith("_tiled") for op in ops_):
        # training contexts handed over as a single- or half-precision array (values rounded to that type first, so
        # the reference regression sees exactly the same numbers): the regression must still be the double-precision
        # one of those numbers
        dt = draw(st.sampled_from(["float32", "float16", "float32"]))
        if max([abs(v) for op in ops_ if op[0] in ("fit", "partial_fit") for row in op[3] for v in row] + [0]) > 1000:
            dt = "float32"          # (half precision overflows at 65504)
        for op in ops_:
            if op[0] in ("fit", "partial_fit"):
                rows = np.asarray(op[3], dtype=dt).astype(float).tolist()
                op[3] = {"array": rows, "dtype": dt}
    return {"config": cfg, "ops": ops_, "query": q}


def ctx_rows(c):
    return c["array"] if isinstance(c, dict) else c


def strategy(tier, ctx):
    return plan_st(tier)


def arm_rows(plan):
    """rows per current arm since the fit (arms added later only see later partial_fits)."""
    rows = {}
    arms = list(plan["config"]["arms"])
    for op in plan["ops"]:
        times = op[4] if op[0].endswith("_tiled") else 1
        kind = op[0][:-6] if op[0].endswith("_tiled") else op[0]
        if kind == "fit":
            rows = {a: ([], []) for a in arms}
        if kind in ("fit", "partial_fit"):
            for _ in range(times):
                for d, r, x in zip(op[1], op[2], ctx_rows(op[3])):
                    if d in rows:
                        rows[d][0].append(x)
                        rows[d][1].append(r)
        elif op[0] == "add_arm":
            arms.append(op[1])
            rows[op[1]] = ([], [])
    return arms, rows


def evaluate(plan, ctx):
    cfg = plan["config"]
    name, params = cfg["lp"]
    lam, scale = params["l2_lambda"], params["scale"]
    alpha = params.get("alpha", 0)
    mab = ops.build(cfg)
    for i, op in enumerate(plan["ops"]):
        o = ops.apply_op(mab, op)
        if ops.is_exc(o):
            raise Violation("unexpected_exception", "op %d %s raised %s" % (i, op[0], ops.short(o)))
    arms, rows = arm_rows(plan)
    Q = np.asarray(plan["query"], dtype=float)
    m, d = Q.shape
    models = copy.deepcopy(mab._imp.arm_to_model) if name == "LinTS" else None
    out = ops.apply_op(mab, ["predict_expectations", plan["query"]])
    if ops.is_exc(out):
        raise Violation("unexpected_exception", "predict_expectations raised %s" % ops.short(out),
                        bucket="unexpected_exception:predict_expectations:" + out[1])
    if (out[0] == "L") != (m > 1):
        raise Violation("shape", "%d query rows gave %s" % (m, out[0]))
    got_rows = out[1] if out[0] == "L" else [out[1]]
    if len(got_rows) != m:
        raise Violation("shape", "%d query rows gave %d results" % (m, len(got_rows)))
    ev = ["lp=" + name, "scale=%s" % scale, "d=%d" % d]
    ymax = max([1.0] + [abs(float(r)) for op in plan["ops"] if op[0].startswith(("fit", "partial_fit")) for r in op[2]])
    zero_rows = False
    for j, a in enumerate(arms):
        X, y = rows[a]
        if len(X) == 0:
            zero_rows = True
            beta = np.zeros(d)
            A_inv = np.eye(d) / lam
            Qa = Q
            lib_bonus_known = alpha * np.sqrt(lam * np.sum(Q * Q, axis=1))     # D2: A_inv = lambda*I
        else:
            Xa = np.asarray(X, dtype=float)
            Qa = Q
            if scale:
                mu, sd = ref.standardise(Xa)
                Xa = (Xa - mu) / sd
                Qa = (Q - mu) / sd
            beta, A = ref.ridge(Xa, y, lam)
            A_inv = np.linalg.inv(A)
            lib_bonus_known = None
        mean = Qa @ beta
        sig = np.sqrt(np.maximum(np.sum((Qa @ A_inv) * Qa, axis=1), 0.0))
        # relative tolerance: 1e-6, widened with the condition number of the arm's normal equations
        rel = max(1e-6, 1e3 * float(np.linalg.cond(np.linalg.inv(A_inv))) * 2.2e-16) if len(X) else 1e-6
        for i in range(m):
            if got_rows[i][j][0] != a:
                raise Violation("keys", "row %d: key %r at position %d, expected arm %r" % (i, got_rows[i][j][0], j, a))
            g = got_rows[i][j][1]
            tol = rel * max(1.0, abs(mean[i]), ymax, alpha * sig[i])
            if name == "LinGreedy":
                want = mean[i]
                ok = abs(g - want) <= tol
                clause = "ridge_mean"
            elif name == "LinUCB":
                want = mean[i] + alpha * sig[i]
                ok = abs(g - want) <= tol * max(1.0, alpha)
                clause = "ucb_value"
                if not ok and lib_bonus_known is not None and D2 in ctx.active \
                        and abs(g - lib_bonus_known[i]) <= tol * max(1.0, alpha * lam):
                    # known finding D2: exactly alpha*sqrt(lambda*x'x) instead of alpha*sqrt(x'x/lambda)
                    ev.append("known:D2")
                    ok = True
            else:
                want = mean[i]
                # (the centre itself carries the rounding of the library's explicit inverse: same condition-aware
                # tolerance as for the other two policies)
                bound = 6.0 * alpha * sig[i] + tol
                ok = abs(g - want) <= bound
                clause = "lints_centre"
                if not ok and lib_bonus_known is not None and D2 in ctx.active \
                        and abs(g - want) <= 6.0 * alpha * math.sqrt(lam * float(Q[i] @ Q[i])) + 1e-9:
                    ev.append("known:D2")     # same root cause: draw spread as alpha^2*lambda*I
                    ok = True
            if not ok:
                raise Violation(clause, "arm %r row %d (d=%d, m=%d, lambda=%r, alpha=%r, scale=%s, %d training rows): "
                                "library %r, reference %r" % (a, i, d, m, lam, alpha, scale, len(X), g, float(want)),
                                bucket=clause + (":unobserved_arm" if len(X) == 0 else ""))
        if name == "LinTS":
            # stronger fast path: the documented Cholesky sampler on a clone of the arm model's generator
            try:
                mdl = models[a] if a in models else [v for k, v in models.items() if k == a][0]
                s = mdl.rng.rng.multivariate_normal(beta, (alpha ** 2) * A_inv, size=m, method="cholesky")
                rep = np.sum(Qa * s.reshape(m, d), axis=1)
                gv = np.array([got_rows[i][j][1] for i in range(m)])
                if np.all(np.abs(rep - gv) <= 1e-6 * np.maximum(1.0, np.abs(rep)) * max(1.0, ymax)):
                    ev.append("lints_replay_exact")
                else:
                    ev.append("lints_replay_differs")
            except Exception:
                ev.append("lints_replay_unavailable")
    n_pf = sum(1 for op in plan["ops"] if op[0].startswith("partial_fit"))
    if any(op[0].endswith("_tiled") for op in plan["ops"]):
        ev.append("tiled_training_call")
    nt = lam != 1 or (d == 1 and m > 1) or n_pf >= 1 or zero_rows
    if zero_rows:
        ev.append("arm_with_zero_rows")
    if d == 1 and m > 1:
        ev.append("d1_many_rows")
    if n_pf:
        ev.append("partial_fit")
    return Result(nt, ev)


SUBCHECKS = [SubCheck("ridge", strategy, evaluate, quick=12000, thorough=150000)]
KNOWN = {}

MANIFEST = {
    "level": "exploration",
    "technique": "property-based testing: generated training histories and query batches (Hypothesis) vs an "
                 "independent ridge solve (numpy.linalg.solve on the raw per-arm normal equations)",
    "design_ref": "DESIGN.md section 4, C02",
    "text": "For generated policies, hyper-parameters, feature counts (incl. one), query batch sizes and training "
            "histories, every returned expectation is compared with an independent per-arm ridge regression built "
            "from the raw history (standardised per arm when scale=True), including the LinUCB bonus and a 6-sigma "
            "envelope plus exact sampler replay for LinTS. Search, not proof.",
    "note": "Trusted: numpy.linalg.solve/inv for the reference. Known finding D2 (never-observed arm holds covariance "
            "lambda*I instead of I/lambda; pinned by tests/test_ridge.py::test_l2_high) is accepted only for exactly "
            "that component and value.",
}
