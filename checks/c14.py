"""C14 - a Thompson binarizer is applied to every reward exactly once."""
from hypothesis import strategies as st

from vlib import binarizers, gen, ops, twin
from vlib.runner import Result, SubCheck, Violation

PROPERTY = "C14"
LEVEL = "exploration"
RULE = ("ThompsonSampling alone and under Radius, KNearest, LSHNearest, Clusters and TreeBandit with a binarizer drawn "
        "from: per-arm thresholds 'r >= t[arm]' / 'r <= t[arm]' (thresholds > 1, so not idempotent on {0,1}), parity, "
        "flip (1 - r on {0,1}); one bandit in four starts without a binarizer and receives its first one through add_arm; "
        "n_jobs in {1,2,3,-1} (threading); small integer and half-integer rewards; histories of fit, partial_fit, add_arm(arm, "
        "new binarizer) followed by partial_fit, remove_arm, queries, and partial_fit calls in which the binarizer raises on one "
        "reward (the call fails; the twin skips it), and late feedback (rows whose decision is an arm removed earlier - "
        "accepted by the library, stored by neighbourhood policies, effective again once the arm is added back). Twin: ThompsonSampling() without binarizer, same "
        "seed and neighbourhood policy, fed int(binarizer(decision, reward)) computed with the binarizer current at the "
        "time of each observation, same calls. predict_expectations and predict must be identical. Non-trivial: the "
        "binarizer changes at least one of the values {0,1} for some arm, and at least one reward converts to 1.")
ASSUMPTIONS = [
    "the twin receives the converted rewards as Python ints; Beta parameters are compared through the draws they "
    "produce from the same seed",
    "n_jobs in {1, 2, 3, -1} with the threading backend (TreeBandit kept at 1: finding D7 of C05)",
]
NT_FLOOR = 0.3

NPS = [None, "Radius", "KNearest", "LSHNearest", "Clusters", "TreeBandit"]


D5 = "D5-treebandit-double-binarization"
POISON = 7777        # a reward every generated binarizer raises on (never drawn by the reward families)


def identity_on_01(desc, arms):
    b = binarizers.make(desc)
    return all(b(a, v) == v for a in arms for v in (0, 1))


def identity01_binarizer_st(arms):
    """thresholds 'r >= t' with t in (0, 1]: converts real rewards but is the identity on {0, 1}."""
    return st.fixed_dictionaries({
        "kind": st.just("threshold"), "op": st.just("ge"),
        "table": st.lists(st.sampled_from([0.5, 1, 0.25]), min_size=len(arms), max_size=len(arms)).map(
            lambda ts: [[a, t] for a, t in zip(arms, ts)]),
        "default": st.sampled_from([0.5, 1]),
    })


def draw_binarizer(draw, arms, npn, ctx, pool=None):
    """General binarizer; under the active known finding D5 a TreeBandit bandit only gets binarizers that are the
    identity on {0,1} (the excluded class is counted)."""
    b = draw(gen.binarizer_st(arms))
    if npn == "TreeBandit" and ctx is not None and D5 in ctx.active and \
            not identity_on_01(b, list(arms) + list(pool or [])):
        ctx.exclude(D5)
        b = draw(identity01_binarizer_st(arms))
    b = dict(b, poison=POISON)
    return b


@st.composite
def plan_st(draw, tier, ctx=None):
    kind, arms = draw(gen.arms_st(("int", "str"), 1, 4))
    npn = draw(st.sampled_from(NPS))
    npd = draw(gen.np_st([npn], arms, prob_ok=False, defaults_ok=True)) if npn else None
    late = draw(st.integers(0, 3)) == 0      # no binarizer at construction: the first one arrives with add_arm
    lp = ["ThompsonSampling", {} if late else {"binarizer": draw_binarizer(draw, arms, npn, ctx, gen.POOLS[kind])}]
    nj = 1 if npn == "TreeBandit" else draw(st.sampled_from([1, 1, 1, 2, 3, -1]))
    cfg = {"arms": arms, "lp": lp, "np": npd, "seed": draw(st.integers(0, 2 ** 20)), "n_jobs": nj,
           "backend": "threading" if nj != 1 else None, "arm_kind": kind}
    fam = draw(st.sampled_from(["S", "Sint", "B", "Bool"]))
    h = gen.History(draw, cfg, reward_family="B" if late else fam,
                    grid=draw(st.sampled_from(["int", "small"])), max_rows=8)
    h.fit() if draw(st.integers(0, 3)) else h.partial_fit()
    h.binarizer_now = not late
    if late:
        if draw(st.booleans()):
            h.query()
        if h.can_add():
            h.add_arm(draw_binarizer(draw, h.arms, npn, ctx, gen.POOLS[kind]))
            h.binarizer_now = True
            h.family = fam
            if draw(st.booleans()):
                h.query()        # the new binarizer is for subsequent observations: stored rewards stay as they are
            h.partial_fit(omit=False)
    for _ in range(draw(st.integers(1, 8 if tier == "quick" else 14))):
        k = draw(st.sampled_from(["partial_fit", "partial_fit", "fit", "add_arm", "add_arm_b", "remove_arm", "query",
                                  "query", "partial_fit_poisoned", "partial_fit_late_feedback"]))
        if k == "partial_fit_poisoned":
            if h.binarizer_now and h.fitted:
                # the binarizer raises on one reward of the batch: the call fails, what was stored before stays
                # stored, and stays converted exactly once
                dec, rew, cx = h.batch()
                rew = list(rew)
                rew[draw(st.integers(0, len(rew) - 1))] = POISON
                h.ops.append(["partial_fit_poisoned", dec, rew, cx])
                if draw(st.booleans()):
                    h.query()
        elif k == "partial_fit_late_feedback":
            gone = [a for a in h.removed if a not in h.arms]
            if gone and h.fitted:
                # feedback that arrives for an arm after it was removed (the library accepts such rows; a neighbourhood
                # policy stores them, and they count again if the arm is added back): their rewards are rewards too
                dec, rew, cx = h.batch()
                dec = list(dec)
                for pos in draw(st.lists(st.integers(0, len(dec) - 1), min_size=1, max_size=len(dec), unique=True)):
                    dec[pos] = draw(st.sampled_from(gone))
                h.ops.append(["partial_fit", dec, list(rew), cx])
                h.rows += len(dec)
        elif k == "add_arm_b":
            if h.can_add():
                h.add_arm(draw_binarizer(draw, h.arms, npn, ctx, gen.POOLS[kind]))
                h.binarizer_now = True
                h.partial_fit(omit=False)
        elif k == "query":
            h.query()
        else:
            gen.step_any(h, [k])
    h.predict_expectations()
    h.predict()
    return {"config": cfg, "ops": h.ops}


def strategy(tier, ctx):
    return plan_st(tier, ctx)


def evaluate(plan, ctx):
    cfg = plan["config"]
    cfg2 = dict(cfg, lp=["ThompsonSampling", {}])
    a = ops.build(cfg)
    b = ops.build(cfg2)
    first = cfg["lp"][1].get("binarizer")
    cur = binarizers.make(first) if first is not None else (lambda d, r: r)     # no binarizer yet: rewards as given
    descs = [first] if first is not None else []
    if first is None:
        ev_late = True
    else:
        ev_late = False
    any_one = False
    ev = twin.pair_events(cfg)
    for i, op in enumerate(plan["ops"]):
        op2 = op
        if op[0] == "partial_fit_poisoned":
            oa = ops.apply_op(a, ["partial_fit"] + list(op[1:]))
            if not ops.is_exc(oa):
                raise Violation("binarizer_not_applied", "op %d: partial_fit accepted a batch with a reward the "
                                "binarizer raises on (rewards %r): the binarizer was not applied to every reward"
                                % (i, op[2]), bucket="binarizer_not_applied")
            ev.append("failed_partial_fit")
            continue
        if op[0] in ("fit", "partial_fit"):
            conv = [int(cur(d, r)) for d, r in zip(op[1], op[2])]
            any_one = any_one or any(conv)
            op2 = [op[0], op[1], conv, op[3]]
        elif op[0] == "add_arm" and len(op) > 2 and op[2] is not None:
            cur = binarizers.make(op[2])
            descs.append(op[2])
            op2 = ["add_arm", op[1]]
            ev.append("add_arm_with_binarizer")
        oa = ops.apply_op(a, op)
        ob = ops.apply_op(b, op2)
        if ops.is_exc(oa) or ops.is_exc(ob):
            raise Violation("unexpected_exception", "op %d %s: with binarizer %s, pre-converted twin %s"
                            % (i, op[0], ops.short(oa), ops.short(ob)),
                            bucket="unexpected_exception:%s" % op[0])
        if not ops.outputs_equal(oa, ob):
            raise Violation("binarized_once", "op %d %s: bandit with binarizer %s, twin fed pre-converted rewards %s"
                            % (i, ops.short(op, 100), ops.short(oa), ops.short(ob)),
                            bucket="binarized_once:" + (cfg["np"][0] if cfg["np"] else "none") + (":late" if ev_late else ""))
    arms_all = set(cfg["arms"]) | {op[1] for op in plan["ops"] if op[0] == "add_arm"}
    non_idem = any(binarizers.make(dsc)(arm, v) != v for dsc in descs for arm in arms_all for v in (0, 1))
    if non_idem:
        ev.append("binarizer_not_identity_on_01")
    if ev_late:
        ev.append("first_binarizer_installed_by_add_arm")
    return Result(non_idem and any_one, ev)


SUBCHECKS = [SubCheck("once", strategy, evaluate, quick=6000, thorough=60000)]
KNOWN = {}

MANIFEST = {
    "level": "exploration",
    "technique": "property-based testing: generated binarizers and histories (Hypothesis), differential twin (bandit "
                 "with binarizer vs bandit without binarizer fed pre-converted rewards, same seed)",
    "design_ref": "DESIGN.md section 4, C14",
    "text": "For generated binarizers (incl. functions that are not idempotent on {0,1}), rewards and histories with "
            "add_arm(arm, binarizer), a Thompson bandit with a binarizer must behave exactly like one without that is "
            "fed the converted rewards, under every neighbourhood policy. Search, not proof.",
    "note": "Trusted: the binarizer classes in vlib/binarizers.py and their application by the check for the twin.",
}
