"""C09 - predict returns the arm with the highest expectation."""
import copy

from hypothesis import strategies as st

from vlib import gen, ops, twin
from vlib.runner import Result, SubCheck, Violation

PROPERTY = "C09"
LEVEL = "exploration"
RULE = ("Generated trained bandits of every policy pair except TreeBandit with EpsilonGreedy(epsilon>0) (excluded by "
        "the property), histories with unobserved arms, arm changes and tiny integer rewards so that exact ties for "
        "the maximum are common; query batches of 1..6 rows. Two deep copies of the same bandit: p = A.predict(Q), e = "
        "B.predict_expectations(Q). For every row p must be the first arm in arm-list order whose expectation equals "
        "the row maximum; a row with a NaN must be all-NaN (empty neighbourhood) and p a current arm. Non-trivial: a "
        "row with an exact tie for the maximum, or a randomised policy (both copies must have drawn the same "
        "numbers).")
ASSUMPTIONS = [
    "n_jobs = 1 (scheduling independence is C05's subject)",
    "empty-neighbourhood rows are the documented exception: only all-NaN and membership are asserted there",
]
NT_FLOOR = 0.3


@st.composite
def plan_st(draw, tier):
    cfg = draw(gen.config_st(metrics=gen.SAFE_METRICS, arm_kinds=("int", "str", "float"), min_arms=1, max_arms=5, with_binarizer=False,
                             scale_ok=True, defaults_ok=True))
    if cfg["np"] and cfg["np"][0] == "TreeBandit" and cfg["lp"][0] == "EpsilonGreedy":
        cfg["lp"][1]["epsilon"] = 0
    fam = None
    if cfg["lp"][0] not in ("ThompsonSampling",) and draw(st.booleans()):
        fam = draw(st.sampled_from(["T", "D"]))   # exact ties, or near-ties that are NOT ties (0.3 vs 0.30000000000000004)
    h = gen.History(draw, cfg, reward_family=fam, grid=draw(st.sampled_from(["int", "small"])), max_rows=8,
                    query_rows=(1, 2, 3, 6))
    h.fit() if draw(st.integers(0, 3)) else h.partial_fit()
    for _ in range(draw(st.integers(0, 5))):
        gen.step_any(h, gen.TRAIN_KINDS + gen.ARM_KINDS + gen.WARM_KINDS + ["predict"])
    q = h.queries()
    return {"config": cfg, "ops": h.ops, "query": q}


def strategy(tier, ctx):
    return plan_st(tier)


def evaluate(plan, ctx):
    cfg = plan["config"]
    b = ops.build(cfg)
    twin.must_succeed(b, plan["ops"], "history")
    a1, a2 = copy.deepcopy(b), copy.deepcopy(b)
    p = ops.apply_op(a1, ["predict", plan["query"]])
    e = ops.apply_op(a2, ["predict_expectations", plan["query"]])
    if ops.is_exc(p) or ops.is_exc(e):
        raise Violation("unexpected_exception", "predict %s / predict_expectations %s" % (ops.short(p), ops.short(e)))
    if p[0] != e[0]:
        raise Violation("shape", "predict gave %s, predict_expectations gave %s" % (p[0], e[0]))
    preds = p[1] if p[0] == "L" else [p[1]]
    rows = e[1] if e[0] == "L" else [e[1]]
    if len(preds) != len(rows):
        raise Violation("shape", "%d predictions, %d expectation rows" % (len(preds), len(rows)))
    arms = [ops.py(x) for x in b.arms]
    ev = twin.pair_events(cfg)
    nt = not twin.is_deterministic(cfg)
    for i, (pr, row) in enumerate(zip(preds, rows)):
        keys = [k for k, _ in row]
        vals = [v for _, v in row]
        if keys != arms:
            raise Violation("keys", "row %d keys %r, arms %r" % (i, keys, arms))
        if any(v != v for v in vals):
            ev.append("empty_neighbourhood_row")
            if not all(v != v for v in vals):
                raise Violation("nan_mixed", "row %d mixes NaN and numbers: %s" % (i, ops.short(row)))
            if not any(pr == a for a in arms):
                raise Violation("predict_member", "row %d: predicted %r not in %r" % (i, pr, arms))
            continue
        mx = max(vals)
        first = keys[vals.index(mx)]
        if vals.count(mx) > 1:
            nt = True
            ev.append("exact_tie")
        if not (pr == first and type(pr) == type(first) or (pr == first and cfg["arm_kind"] in ("float", "mix"))):
            raise Violation("not_first_argmax", "row %d: predict returned %r, the first arm attaining the maximum of "
                            "the expectations %s is %r" % (i, pr, ops.short(row), first),
                            bucket="not_first_argmax:" + ("tie" if vals.count(mx) > 1 else "value"))
    return Result(nt, ev)


SUBCHECKS = [SubCheck("argmax", strategy, evaluate, quick=12000, thorough=150000)]
KNOWN = {}

MANIFEST = {
    "level": "exploration",
    "technique": "property-based testing: generated bandits with engineered ties (Hypothesis), differential relation "
                 "between predict on one deep copy and the first arg-max of predict_expectations on another",
    "design_ref": "DESIGN.md section 4, C09",
    "text": "For generated trained bandits of every admitted policy pair and query batches, predict on one copy must "
            "equal the first arm attaining the maximum of predict_expectations on another copy at the same stream "
            "position, with all-NaN rows as the only exception. Search, not proof.",
    "note": "Trusted: copy.deepcopy to obtain two bandits at the same model and stream position.",
}
