"""C09 - predict returns the arm with the highest expectation."""
import copy

import numpy as np

from hypothesis import strategies as st

from vlib import gen, ops, twin
from vlib.runner import Result, SubCheck, Violation

PROPERTY = "C09"
LEVEL = "exploration"
RULE = ("One case in eight (no neighbourhood policy): some arms trained, the others warm-started from them, then every trained arm removed. "
        "Generated trained bandits of every policy pair except TreeBandit with EpsilonGreedy(epsilon>0) (excluded by "
        "the property), histories with unobserved arms, arm changes and tiny integer rewards so that exact ties for "
        "the maximum are common; query batches of 1..6 rows. Two deep copies of the same bandit: p = A.predict(Q), e = "
        "B.predict_expectations(Q). For every row p must be the first arm in arm-list order whose expectation equals "
        "the row maximum; a row with a NaN must be all-NaN (empty neighbourhood) and p a current arm. Non-trivial: a "
        "row with an exact tie for the maximum, or a randomised policy (both copies must have drawn the same "
        "numbers).")
ASSUMPTIONS = [
    "n_jobs = 1 (scheduling independence is C05's subject)",
    "empty-neighbourhood rows are the documented exception: only all-NaN and membership are asserted there",
]
NT_FLOOR = 0.3


def _near_pairs():
    """Pairs of equally long reward lists (tenths) with the same exact mean whose floating-point means differ in the
    last bits: (list with the smaller float mean, list with the larger one)."""
    import itertools
    out = []
    for n in (2, 3):
        by_sum = {}
        for c in itertools.combinations_with_replacement(range(0, 11), n):
            by_sum.setdefault(sum(c), []).append(c)
        for cs in by_sum.values():
            fm = [(float(np.array([k / 10.0 for k in c]).sum() / n), c) for c in cs]
            lo, hi = min(fm), max(fm)
            if lo[0] < hi[0]:
                out.append(([k / 10.0 for k in lo[1]], [k / 10.0 for k in hi[1]]))
    return out


NEAR_PAIRS = _near_pairs()


@st.composite
def plan_st(draw, tier):
    cfg = draw(gen.config_st(many_arms_ok=True, metrics=gen.SAFE_METRICS, arm_kinds=("int", "str", "float"), min_arms=1, max_arms=5, with_binarizer=False,
                             scale_ok=True, defaults_ok=True))
    if cfg["np"] and cfg["np"][0] == "TreeBandit" and cfg["lp"][0] == "EpsilonGreedy":
        cfg["lp"][1]["epsilon"] = 0
    fam = None
    if cfg["lp"][0] not in ("ThompsonSampling",) and draw(st.booleans()):
        fam = draw(st.sampled_from(["T", "D"]))   # exact ties, or near-ties that are NOT ties (0.3 vs 0.30000000000000004)
    h = gen.History(draw, cfg, reward_family=fam, grid=draw(st.sampled_from(["int", "small"])), max_rows=8,
                    query_rows=(1, 2, 3, 6))
    if fam == "D" and len(cfg["arms"]) >= 2 and draw(st.booleans()):
        # engineered near-tie: two arms with equally many rewards and the same exact mean, the arm listed first with
        # the (last-bits) smaller floating-point mean; every other arm far below. All rows share one context, which
        # is also the query, so every neighbourhood holds all rows.
        lo, hi = draw(st.sampled_from(NEAR_PAIRS))
        i, j = sorted(draw(st.lists(st.integers(0, len(cfg["arms"]) - 1), min_size=2, max_size=2, unique=True)))
        dec, rew = [], []
        for pos, a in enumerate(cfg["arms"]):
            rs = lo if pos == i else hi if pos == j else [0.0] * len(lo)
            dec += [a] * len(rs)
            rew += rs
        order = draw(gen.perm_st(list(range(len(dec)))))
        dec, rew = [dec[k] for k in order], [rew[k] for k in order]
        row = draw(gen.contexts_st(1, h.d, h.grid))[0]
        h.ops.append(["fit", dec, rew, [list(row) for _ in dec] if h.contextual else None])
        h.fitted, h.rows = True, len(dec)
        q = [list(row) for _ in range(draw(st.integers(1, 3)))] if h.contextual else h.queries()
        return {"config": cfg, "ops": h.ops, "query": q}
    if not cfg["np"] and 3 <= len(cfg["arms"]) <= 8 and draw(st.integers(0, 7)) == 0:
        # warm-started arms that outlive their sources: some arms are trained, the others are warm-started from them with
        # a generous threshold, then every trained arm is removed - what is left has state but no observation of its own
        dec, rew, cx = h.batch(omit=True)
        h.ops.append(["fit", dec, rew, cx])
        h.fitted, h.rows = True, len(dec)
        h.warm_start()[2] = draw(st.sampled_from([1.0, 1.0, 0.75]))
        for a in [a for a in list(h.arms) if a in dec]:
            if len(h.arms) > 1:
                h.arms.remove(a)
                h.removed.append(a)
                h.ops.append(["remove_arm", a])
        if draw(st.booleans()):
            h.add_arm()
        return {"config": cfg, "ops": h.ops, "query": h.queries()}
    h.fit() if draw(st.integers(0, 3)) else h.partial_fit()
    for _ in range(draw(st.integers(0, 5))):
        gen.step_any(h, gen.TRAIN_KINDS + gen.ARM_KINDS + gen.WARM_KINDS + ["predict"])
    q = h.queries()
    return {"config": cfg, "ops": h.ops, "query": q}


def strategy(tier, ctx):
    return plan_st(tier)


def evaluate(plan, ctx):
    cfg = plan["config"]
    b = ops.build(cfg)
    twin.must_succeed(b, plan["ops"], "history")
    a1, a2 = copy.deepcopy(b), copy.deepcopy(b)
    p = ops.apply_op(a1, ["predict", plan["query"]])
    e = ops.apply_op(a2, ["predict_expectations", plan["query"]])
    if ops.is_exc(p) or ops.is_exc(e):
        raise Violation("unexpected_exception", "predict %s / predict_expectations %s" % (ops.short(p), ops.short(e)))
    if p[0] != e[0]:
        raise Violation("shape", "predict gave %s, predict_expectations gave %s" % (p[0], e[0]))
    preds = p[1] if p[0] == "L" else [p[1]]
    rows = e[1] if e[0] == "L" else [e[1]]
    if len(preds) != len(rows):
        raise Violation("shape", "%d predictions, %d expectation rows" % (len(preds), len(rows)))
    arms = [ops.py(x) for x in b.arms]
    ev = twin.pair_events(cfg)
    nt = not twin.is_deterministic(cfg)
    for i, (pr, row) in enumerate(zip(preds, rows)):
        keys = [k for k, _ in row]
        vals = [v for _, v in row]
        if keys != arms:
            raise Violation("keys", "row %d keys %r, arms %r" % (i, keys, arms))
        if any(v != v for v in vals):
            ev.append("empty_neighbourhood_row")
            if not all(v != v for v in vals):
                raise Violation("nan_mixed", "row %d mixes NaN and numbers: %s" % (i, ops.short(row)))
            if not any(pr == a for a in arms):
                raise Violation("predict_member", "row %d: predicted %r not in %r" % (i, pr, arms))
            continue
        mx = max(vals)
        first = keys[vals.index(mx)]
        if vals.count(mx) > 1:
            nt = True
            ev.append("exact_tie")
        elif any(v != mx and abs(v - mx) <= 1e-9 * max(abs(mx), 1e-300) for v in vals):
            nt = True
            ev.append("near_tie_not_a_tie")
        if not (pr == first and type(pr) == type(first) or (pr == first and cfg["arm_kind"] in ("float", "mix"))):
            raise Violation("not_first_argmax", "row %d: predict returned %r, the first arm attaining the maximum of "
                            "the expectations %s is %r" % (i, pr, ops.short(row), first),
                            bucket="not_first_argmax:" + ("tie" if vals.count(mx) > 1 else "value"))
    return Result(nt, ev)


SUBCHECKS = [SubCheck("argmax", strategy, evaluate, quick=12000, thorough=150000)]
KNOWN = {}

MANIFEST = {
    "level": "exploration",
    "technique": "property-based testing: generated bandits with engineered ties (Hypothesis), differential relation "
                 "between predict on one deep copy and the first arg-max of predict_expectations on another",
    "design_ref": "DESIGN.md section 4, C09",
    "text": "For generated trained bandits of every admitted policy pair and query batches, predict on one copy must "
            "equal the first arm attaining the maximum of predict_expectations on another copy at the same stream "
            "position, with all-NaN rows as the only exception. Search, not proof.",
    "note": "Trusted: copy.deepcopy to obtain two bandits at the same model and stream position.",
}
