"""C13 - warm_start only initialises cold arms, from their nearest trained arm."""
import copy
import math
import pickle

import numpy as np
from hypothesis import strategies as st

from vlib import gen, ops, twin
from vlib.runner import Result, SubCheck, Violation

PROPERTY = "C13"
LEVEL = "exploration"
RULE = ("Model-based histories over EpsilonGreedy, UCB1, Softmax, ThompsonSampling, Popularity, LinGreedy / LinTS / "
        "LinUCB without neighbourhood policy, 2..6 arms; rules fit, partial_fit, add_arm, remove_arm, warm_start with "
        "feature vectors from a small integer grid (zero vectors and duplicates frequent) and quantiles in {0, .1, "
        ".25, .5, .75, .9, 1}. At every warm_start: per-arm learned state (sums / counts / means / Beta parameters; "
        "beta, A, A^-1, X'y, scaler) is read before and after; (1) trained arms and untouched cold arms are "
        "bit-identical; (2) a changed arm was cold and now holds an exact copy of the state of a trained (observed) "
        "arm at minimal cosine distance (ties: any minimiser), that distance <= threshold, and every cold arm whose "
        "minimal distance is clearly below the threshold was changed - distances and threshold computed by an "
        "independent routine (cosine, NaN -> infinite, threshold = q-quantile of each arm's nearest-neighbour "
        "distance); (3) on deep-copied forks the warm-started set at q1 is a subset of that at q2 for q1 <= q2; (4) "
        "repeating the call changes nothing; (5) cold_arms == arms - observed - warm after every step, warm flags "
        "cleared by fit; (6) if warm_start raises, nothing changed. Non-trivial: a call that warms >= 1 arm while >= 1 "
        "cold arm stays cold, or a warm_start after a partial_fit on a warm arm.")
ASSUMPTIONS = [
    "a distance within 1e-9 of the threshold, or two candidate distances within 1e-12, are treated as ties (either "
    "outcome accepted)",
    "Softmax: the learned state is (sum, count, mean); the soft-max probabilities are a joint function of all arms "
    "and legitimately change for every arm when one arm is warm-started",
    "warm_start raising because no pair of arms has a defined cosine distance is accepted as a rejected call",
]
NT_FLOOR = 0.1

LPS = ["EpsilonGreedy", "UCB1", "Softmax", "ThompsonSampling", "Popularity", "LinGreedy", "LinTS", "LinUCB"]
BIG = 999999.0


@st.composite
def plan_st(draw, tier):
    cfg = draw(gen.config_st(lps=LPS, nps=[None], arm_kinds=("int", "str", "float", "mix"), min_arms=2, max_arms=6, scale_ok=True))
    h = gen.History(draw, cfg, max_rows=8)
    for _ in range(draw(st.sampled_from([0, 0, 1]))):
        gen.step_any(h, gen.ARM_KINDS + gen.WARM_KINDS)
    h.fit(omit=True) if draw(st.integers(0, 3)) else h.partial_fit(omit=True)
    for _ in range(draw(st.integers(1, 9 if tier == "quick" else 16))):
        k = draw(st.sampled_from(["warm_start", "warm_start", "warm_start", "partial_fit", "partial_fit", "fit",
                                  "add_arm", "add_arm", "remove_arm", "query"]))
        if k == "warm_start":
            if h.can_warm():
                h.warm_start(ensure_defined=draw(st.integers(0, 5)) > 0)
        elif k == "query":
            h.query()
        elif k in ("fit", "partial_fit"):
            getattr(h, k)(omit=True)
        else:
            gen.step_any(h, [k])
    fork_q = draw(st.lists(st.sampled_from([0.0, 0.1, 0.25, 0.5, 0.75, 0.9, 1.0]), min_size=2, max_size=3, unique=True))
    return {"config": cfg, "ops": h.ops, "fork_q": sorted(fork_q)}


def strategy(tier, ctx):
    return plan_st(tier)


# ---- learned state ------------------------------------------------------------------------------------------------

def arm_state(mab, arm):
    imp = mab._imp
    name = type(imp).__name__
    if name in ("_EpsilonGreedy", "_Popularity"):
        return ("g", ops.py(imp.arm_to_sum[arm]), ops.py(imp.arm_to_count[arm]), ops.py(imp.arm_to_expectation[arm]))
    if name == "_UCB1":
        return ("u", ops.py(imp.arm_to_sum[arm]), ops.py(imp.arm_to_count[arm]), ops.py(imp.arm_to_mean[arm]),
                ops.py(imp.arm_to_expectation[arm]))
    if name == "_Softmax":
        return ("s", ops.py(imp.arm_to_sum[arm]), ops.py(imp.arm_to_count[arm]), ops.py(imp.arm_to_mean[arm]))
    if name == "_ThompsonSampling":
        return ("t", ops.py(imp.arm_to_success_count[arm]), ops.py(imp.arm_to_fail_count[arm]))
    if name == "_Linear":
        m = imp.arm_to_model[arm]
        parts = []
        for attr in ("beta", "A", "A_inv", "Xty"):
            v = getattr(m, attr)
            parts.append(None if v is None else (v.shape, v.tobytes()))
        sc = m.scaler
        if sc is not None and hasattr(sc, "scale_"):
            parts.append(tuple(np.asarray(getattr(sc, a)).tobytes() for a in ("mean_", "var_", "scale_"))
                         + (int(np.max(sc.n_samples_seen_)),))
        else:
            parts.append(None if sc is None else "unfitted-scaler")
        return ("l", tuple(parts))
    raise ValueError(name)


def same_state(a, b):
    def eq(x, y):
        if isinstance(x, tuple) and isinstance(y, tuple):
            return len(x) == len(y) and all(eq(p, q) for p, q in zip(x, y))
        if isinstance(x, float) and isinstance(y, float) and math.isnan(x) and math.isnan(y):
            return True
        return x == y
    return eq(a, b)


# ---- independent selection ----------------------------------------------------------------------------------------

def cosine(u, v):
    u = np.asarray(u, dtype=float)
    v = np.asarray(v, dtype=float)
    nu, nv = math.sqrt(float(u @ u)), math.sqrt(float(v @ v))
    if nu == 0 or nv == 0:
        return BIG
    return 1.0 - float(u @ v) / (nu * nv)


def quantile(values, q):
    s = sorted(values)
    pos = q * (len(s) - 1)
    lo = int(math.floor(pos))
    hi = min(lo + 1, len(s) - 1)
    return s[lo] + (s[hi] - s[lo]) * (pos - lo)


def reference_selection(arms, feats, q, trained, cold):
    """-> (threshold or None, {cold arm: (dmin, minimisers)})"""
    dist = {a: {b: (BIG if a == b else cosine(feats[a], feats[b])) for b in feats} for a in feats}
    closest = [min(d.values()) for d in dist.values() if min(d.values()) != BIG]
    if not closest:
        return None, {}
    thr = quantile(closest, q)
    out = {}
    for c in cold:
        cand = [t for t in arms if t in trained]
        if not cand:
            continue
        dmin = min(dist[c][t] for t in cand)
        out[c] = (dmin, [t for t in cand if dist[c][t] <= dmin + 1e-12])
    return thr, out


def evaluate(plan, ctx):
    cfg = plan["config"]
    mab = ops.build(cfg)
    arms = list(cfg["arms"])
    observed, warm = set(), set()
    pf_on_warm = False
    nt = False
    fitted = False
    ev = ["lp=" + cfg["lp"][0]]
    for i, op in enumerate(plan["ops"]):
        k = op[0]
        if k != "warm_start":
            out = ops.apply_op(mab, op)
            if ops.is_exc(out) and not (k in ("predict", "predict_expectations") and not fitted):
                raise Violation("unexpected_exception", "op %d %s raised %s" % (i, k, ops.short(out)),
                                bucket="unexpected_exception:%s:%s" % (k, out[1]))
            if k == "fit":
                observed, warm = set(op[1]), set()
                pf_on_warm = False
                fitted = True
            elif k == "partial_fit":
                if not fitted:
                    observed, warm = set(), set()
                if warm & set(op[1]):
                    pf_on_warm = True
                observed |= set(op[1])
                fitted = True
            elif k == "add_arm":
                arms.append(op[1])
                observed.discard(op[1])
                warm.discard(op[1])
            elif k == "remove_arm":
                arms.remove(op[1])
                observed.discard(op[1])
                warm.discard(op[1])
        else:
            feats = {a: list(v) for a, v in op[1]}
            q = op[2]
            cold = [a for a in arms if a not in observed and a not in warm]
            trained = [a for a in arms if a in observed]
            before = {a: arm_state(mab, a) for a in arms}
            # (3) monotone in the quantile, on forks
            prev_set = None
            for fq in plan["fork_q"]:
                f = copy.deepcopy(mab)
                fb = {a: arm_state(f, a) for a in arms}
                r = ops.apply_op(f, ["warm_start", op[1], fq])
                if ops.is_exc(r):
                    prev_set = None
                    break
                changed = {a for a in arms if not same_state(fb[a], arm_state(f, a))}
                if prev_set is not None and not prev_set <= changed:
                    raise Violation("not_monotone", "op %d: warm-started set at a smaller quantile %r is not contained in "
                                    "the set %r at quantile %r" % (i, sorted(map(str, prev_set)), sorted(map(str, changed)), fq))
                prev_set = changed
            out = ops.apply_op(mab, op)
            after = {a: arm_state(mab, a) for a in arms}
            changed = [a for a in arms if not same_state(before[a], after[a])]
            if ops.is_exc(out):
                ev.append("warm_start_raised:" + out[1])
                thr, sel = reference_selection(arms, feats, q, trained, cold)
                if thr is not None:
                    raise Violation("unexpected_exception", "op %d warm_start raised %s although a cosine distance is "
                                    "defined" % (i, ops.short(out)), bucket="unexpected_exception:warm_start:" + out[1])
                if changed:
                    raise Violation("rejected_changed_state", "op %d: warm_start raised %s but changed arms %r"
                                    % (i, ops.short(out), changed))
                continue
            thr, sel = reference_selection(arms, feats, q, trained, cold)
            for a in changed:
                if a not in cold:
                    raise Violation("non_cold_arm_modified", "op %d: warm_start(q=%r) modified arm %r which is %s "
                                    "(observed %r, warm %r)" % (i, q, a, "trained" if a in observed else "already warm",
                                                                sorted(map(str, observed)), sorted(map(str, warm))),
                                    bucket="non_cold_arm_modified:" + ("trained" if a in observed else "warm"))
                if a not in sel:
                    raise Violation("warm_without_source", "op %d: cold arm %r changed although no trained arm exists" % (i, a))
                dmin, mins = sel[a]
                if not any(same_state(after[a], before[t]) for t in mins):
                    src = [t for t in arms if t != a and same_state(after[a], before[t])]
                    raise Violation("not_nearest_copy", "op %d: cold arm %r (features %r) does not hold an exact copy of "
                                    "its nearest trained arm %r (distance %r); it matches %r; trained arms %r, features %r"
                                    % (i, a, feats[a], mins, dmin, src, trained, feats),
                                    bucket="not_nearest_copy:" + ("other_arm" if src else "no_arm"))
                if dmin > thr + 1e-9:
                    raise Violation("beyond_threshold", "op %d: cold arm %r was warm-started from distance %r > threshold "
                                    "%r (q=%r)" % (i, a, dmin, thr, q))
            for a in cold:
                # (a distance that IS the threshold - the same matrix entry, e.g. at q = 1 - is structurally equal
                # in any consistent implementation and must be accepted: 'does not exceed')
                if a in sel and a not in changed and (sel[a][0] < thr - 1e-9 or sel[a][0] == thr) and \
                        not any(same_state(before[a], before[t]) for t in sel[a][1]):
                    raise Violation("not_warm_started", "op %d: cold arm %r has a trained arm at distance %r <= threshold %r "
                                    "(q=%r) but was left untouched" % (i, a, sel[a][0], thr, q))
            warm |= set(changed)
            # a copy that is invisible (the nearest trained arm's state equals the cold arm's own state, e.g. a linear
            # arm trained only on zero contexts and zero rewards): follow the library's own cold_arms for this arm
            lib_cold = [ops.py(x) for x in mab.cold_arms]
            for a in cold:
                if a in sel and a not in changed and sel[a][0] <= thr + 1e-9 and \
                        any(same_state(before[a], before[t]) for t in sel[a][1]) and a not in lib_cold:
                    warm.add(a)
                    ev.append("invisible_copy")
            if changed and any(a not in changed for a in cold):
                nt = True
                ev.append("some_warm_some_cold")
            if pf_on_warm:
                nt = True
                ev.append("warm_start_after_partial_fit_on_warm_arm")
            if changed:
                ev.append("warmed")
            # (4) idempotent
            again = copy.deepcopy(mab)
            r = ops.apply_op(again, op)
            ch2 = [a for a in arms if not same_state(after[a], arm_state(again, a))]
            if ops.is_exc(r) or ch2:
                raise Violation("not_idempotent", "op %d: repeating warm_start changed arms %r (%s)" % (i, ch2, ops.short(r)))
        # (5) cold_arms after every step
        want_cold = [a for a in arms if a not in observed and a not in warm]
        got_cold = [ops.py(a) for a in mab.cold_arms]
        if got_cold != want_cold:
            raise Violation("cold_arms", "after op %d %s: cold_arms %r, expected %r (arms %r, observed %r, warm %r)"
                            % (i, k, got_cold, want_cold, arms, sorted(map(str, observed)), sorted(map(str, warm))))
    return Result(nt, ev)


SUBCHECKS = [SubCheck("warm", strategy, evaluate, quick=8000, thorough=60000)]
KNOWN = {}

MANIFEST = {
    "level": "exploration",
    "technique": "property-based testing: model-based generated histories with warm_start calls (Hypothesis) vs an "
                 "independent selection routine, plus frame / exact-copy / monotonicity / idempotence / cold_arms "
                 "relations on deep-copied forks",
    "design_ref": "DESIGN.md section 4, C13",
    "text": "At every generated warm_start the per-arm learned state is compared before/after against an independent "
            "implementation of the documented selection (cosine distance, quantile threshold, nearest trained arm), "
            "and the monotonicity, idempotence and cold_arms clauses are checked on forks. Search, not proof.",
    "note": "Trusted: the check's own cosine / quantile routines with tie bands (1e-12 between candidates, 1e-9 at the "
            "threshold); per-arm state is read through the attributes the property anchors.",
}
