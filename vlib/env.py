"""Process environment for every check: interpreter, pinned variables, repo under test.

Everything that makes a run a pure function of (code under test, VERIF_SEED) is fixed here.
"""
import os
import sys

VERIF_DIR = os.path.dirname(os.path.dirname(os.path.abspath(__file__)))
VENV_PY = "/venv/bin/python"

PINNED = {
    "PYTHONHASHSEED": "0",
    "OMP_NUM_THREADS": "1",
    "OPENBLAS_NUM_THREADS": "1",
    "MKL_NUM_THREADS": "1",
    "PYTHONWARNINGS": "ignore",
    "PYTHONDONTWRITEBYTECODE": "1",
    "MPLBACKEND": "Agg",
    "JOBLIB_MULTIPROCESSING": "1",
}


def repo_dir() -> str:
    return os.path.abspath(os.environ.get("VERIF_REPO", "/repo"))


def verif_seed() -> int:
    try:
        return int(os.environ.get("VERIF_SEED", "1"))
    except ValueError:
        return 1


def child_env(extra=None) -> dict:
    env = dict(os.environ)
    env.update(PINNED)
    env["VERIF_REPO"] = repo_dir()
    env["VERIF_SEED"] = str(verif_seed())
    env["FIDELITY_MABWISER_VERIF"] = "1"
    deps = os.path.join(VERIF_DIR, ".deps")
    pp = [repo_dir(), VERIF_DIR]
    if os.path.isdir(deps):
        pp.append(deps)
    env["PYTHONPATH"] = os.pathsep.join(pp)
    if extra:
        env.update(extra)
    return env


def ensure_interpreter():
    """Re-exec under /venv's interpreter with the pinned environment (once)."""
    if os.environ.get("_VERIF_PINNED") == "1":
        return
    env = child_env({"_VERIF_PINNED": "1"})
    py = VENV_PY if os.path.exists(VENV_PY) else sys.executable
    os.execve(py, [py] + sys.argv, env)


def setup_paths():
    """Put the repo under test first on sys.path and check that mabwiser comes from it."""
    rd = repo_dir()
    for p in (VERIF_DIR, rd):
        if p in sys.path:
            sys.path.remove(p)
    sys.path.insert(0, VERIF_DIR)
    sys.path.insert(0, rd)
    import warnings
    warnings.filterwarnings("ignore")
    import logging
    logging.disable(logging.CRITICAL)
    import mabwiser
    got = os.path.dirname(os.path.abspath(mabwiser.__file__))
    want = os.path.join(rd, "mabwiser")
    if os.path.realpath(got) != os.path.realpath(want):
        raise RuntimeError("mabwiser imported from %s, expected %s" % (got, want))
