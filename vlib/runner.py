"""Sharded Hypothesis runner, replay, known-finding handling and evidence writing.

A check module (checks/cXX.py) provides

    PROPERTY     = "C01"
    LEVEL        = "exploration" | "fault_enumeration"
    RULE         = text: how cases are generated and what makes one non-trivial
    ASSUMPTIONS  = [text, ...]
    SUBCHECKS    = [SubCheck(...), ...]
    KNOWN        = {finding key: matcher(plan, violation) -> bool}          (optional)

and each SubCheck has a strategy factory (tier, ctx) -> hypothesis strategy of JSON-able plans, and
evaluate(plan, ctx) -> Result, raising Violation(clause, detail) when the property is broken.
"""
import hashlib
import json
import os
import subprocess
import sys
import tempfile
import time
import traceback
from collections import Counter

from vlib import env

N_WORKERS = int(os.environ.get("VERIF_WORKERS", "16"))


class Violation(Exception):
    def __init__(self, clause, detail="", bucket=None, data=None):
        super().__init__("%s: %s" % (clause, detail))
        self.clause = clause
        self.detail = detail
        self.bucket = bucket or clause
        self.data = data or {}


class Result:
    __slots__ = ("nontrivial", "events", "skipped")

    def __init__(self, nontrivial=False, events=(), skipped=False):
        self.nontrivial = bool(nontrivial)
        self.events = list(events)
        self.skipped = skipped


class SubCheck:
    def __init__(self, name, strategy, evaluate, quick, thorough, enumerate_fn=None, workers=None,
                 quick_s=75.0, thorough_s=900.0, shrink=True, minimize=None, external=None):
        self.external = external          # (tier, ctx, worker, nworkers) -> dict | None: an out-of-process campaign
        self.shrink = shrink              # False: no Hypothesis shrink phase (expensive cases); see minimize
        self.minimize = minimize          # (plan, fails: plan -> Violation|None) -> smaller failing plan
        self.name = name
        self.strategy = strategy          # (tier, ctx) -> hypothesis strategy   (None when enumerate_fn)
        self.evaluate = evaluate          # (plan, ctx) -> Result
        self.budget = {"quick": quick, "thorough": thorough}
        self.enumerate_fn = enumerate_fn  # (tier, ctx, worker, nworkers) -> iterable of plans (exhaustive)
        self.workers = workers
        self.wall = {"quick": quick_s, "thorough": thorough_s}


class Ctx:
    def __init__(self, prop, tier, active=(), worker=0, nworkers=1):
        self.property = prop
        self.tier = tier
        self.active = set(active)     # keys of known findings that still reproduce
        self.worker = worker
        self.nworkers = nworkers
        self.excluded = Counter()     # cases excluded by construction because of an active known finding

    def exclude(self, key):
        self.excluded[key] += 1


def compact_sample(plan, limit=6000):
    """A sample for the evidence file: batches (lists of sub-plans) are cut to their first element."""
    if len(json.dumps(plan, default=str)) <= limit or not isinstance(plan, dict):
        return plan
    out = {}
    for k, v in plan.items():
        if isinstance(v, list) and len(v) > 1 and all(isinstance(x, dict) for x in v):
            out[k] = [compact_sample(v[0], limit)]
            out["_%s_total" % k] = len(v)
        else:
            out[k] = v
    return out


def plan_hash(plan):
    return hashlib.sha1(json.dumps(plan, sort_keys=True, default=str).encode()).hexdigest()[:16]


def derive_seed(*parts):
    h = hashlib.sha256("|".join(str(p) for p in parts).encode()).digest()
    return int.from_bytes(h[:6], "big")


def load_check(prop):
    import importlib
    return importlib.import_module("checks.%s" % prop.lower())


def slug(s):
    return "".join(c if c.isalnum() or c in "-_." else "_" for c in s)[:80]


# ------------------------------------------------------------------------------------------------
# known findings

def load_findings(prop):
    path = os.path.join(env.VERIF_DIR, "known_findings.json")
    if not os.path.exists(path):
        return []
    with open(path) as f:
        data = json.load(f)
    return [e for e in data.get("findings", []) if e.get("property") == prop]


def find_sub(mod, name):
    for s in mod.SUBCHECKS:
        if s.name == name:
            return s
    raise KeyError("no subcheck %r in %s" % (name, mod.PROPERTY))


def eval_replay(mod, rec, ctx):
    """-> None if the plan passes, else the Violation."""
    sub = find_sub(mod, rec["subcheck"])
    try:
        sub.evaluate(rec["plan"], ctx)
    except Violation as v:
        return v
    return None


def match_known(mod, ctx, plan, v):
    known = getattr(mod, "KNOWN", {})
    for key in sorted(ctx.active):
        m = known.get(key)
        if m is not None and m(plan, v):
            return key
    return None


# ------------------------------------------------------------------------------------------------
# worker

def worker_main(prop, tier, w, nworkers, active, out_path, only=None):
    env.setup_paths()
    cov = None
    if os.environ.get("VERIF_COVERAGE"):
        # measurement aid (tools/coverage_report.sh): which lines of the library the generators reach
        import coverage
        cov = coverage.Coverage(data_file=os.path.join(os.environ["VERIF_COVERAGE"], "cov_%s_%d" % (prop, w)),
                                source=[os.path.join(env.repo_dir(), "mabwiser")], branch=True)
        cov.start()
        import atexit
        atexit.register(lambda: (cov.stop(), cov.save()))
    import hypothesis
    from hypothesis import HealthCheck, Phase, given, settings
    mod = load_check(prop)
    ctx = Ctx(prop, tier, active, w, nworkers)
    seed0 = env.verif_seed()
    res = {"worker": w, "subchecks": {}, "violations": [], "errors": [], "excluded": {}}
    for sub in mod.SUBCHECKS:
        if only and sub.name not in only:
            continue
        nw = sub.workers or nworkers
        if w >= nw:
            continue
        st = {"evaluations": 0, "nontrivial": [], "events": Counter(), "samples_nt": [], "samples_tr": [],
              "known_hits": Counter(), "skipped": 0, "budget_exhausted": False, "wall_s": 0.0,
              "exhaustive": False}
        res["subchecks"][sub.name] = st
        nt_set = set()
        t0 = time.time()
        deadline = t0 + sub.wall[tier]
        ignored = set()
        state = {"shrink_calls": 0, "failing": None}
        shrink_budget = 400 if tier == "quick" else 1500
        shrink_s = 25.0 if tier == "quick" else 120.0

        def run_one(plan):
            """Evaluate one plan; returns normally on pass / known / ignored; raises Violation otherwise."""
            try:
                r = sub.evaluate(plan, ctx)
            except Violation as v:
                key = match_known(mod, ctx, plan, v)
                if key is not None:
                    st["known_hits"][key] += 1
                    st["evaluations"] += 1
                    return
                b = "%s:%s" % (sub.name, v.bucket)
                if b in ignored:
                    return
                raise
            st["evaluations"] += 1
            if r.skipped:
                st["skipped"] += 1
            for e in set(r.events):
                st["events"][e] += 1
            h = plan_hash(plan)
            if r.nontrivial:
                if h not in nt_set:
                    nt_set.add(h)
                    if len(st["samples_nt"]) < 2:
                        st["samples_nt"].append(plan)
            elif len(st["samples_tr"]) < 1:
                st["samples_tr"].append(plan)

        if sub.external is not None:
            try:
                r = sub.external(tier, ctx, w, nw)
            except Exception:
                r = {"error": traceback.format_exc()[-3000:]}
            if r is None:
                del res["subchecks"][sub.name]
                continue
            if "error" in r:
                res["errors"].append({"subcheck": sub.name, "trace": r["error"]})
            else:
                st["evaluations"] = r["evaluations"]
                nt_set.update(r["nontrivial"])
                st["events"].update(r["events"])
                for v in r["violations"]:
                    res["violations"].append(v)
            st["nontrivial"] = sorted(nt_set)
            st["wall_s"] = time.time() - t0
            continue
        if sub.enumerate_fn is not None:
            st["exhaustive"] = True
            try:
                for plan in sub.enumerate_fn(tier, ctx, w, nw):
                    try:
                        run_one(plan)
                    except Violation as v:
                        b = "%s:%s" % (sub.name, v.bucket)
                        ignored.add(b)
                        res["violations"].append({"subcheck": sub.name, "bucket": b, "clause": v.clause,
                                                  "detail": v.detail[:2000], "plan": plan})
            except Exception:
                res["errors"].append({"subcheck": sub.name, "trace": traceback.format_exc()[-4000:]})
            st["nontrivial"] = sorted(nt_set)
            st["wall_s"] = time.time() - t0
            continue

        total = sub.budget[tier]
        if total <= 0:
            del res["subchecks"][sub.name]      # not part of this tier
            continue
        per_worker = max(1, -(-total // nw))
        max_rounds = 2 if tier == "quick" else 4
        for rnd in range(max_rounds):
            state.update(shrink_calls=0, failing=None)
            failed_hashes = set()
            strat = sub.strategy(tier, ctx)

            def body(plan):
                if state["failing"] is None and time.time() > deadline:
                    st["budget_exhausted"] = True
                    return
                if state["failing"] is not None:
                    state["shrink_calls"] += 1
                    if (state["shrink_calls"] > shrink_budget or time.time() - state["t_fail"] > shrink_s) \
                            and plan_hash(plan) not in failed_hashes:
                        return  # stop the shrinker: only plans already seen failing still fail
                try:
                    run_one(plan)
                except Violation as v:
                    if state["failing"] is None:
                        state["t_fail"] = time.time()
                    state["failing"] = v
                    failed_hashes.add(plan_hash(plan))
                    v.plan = plan
                    raise

            test = given(strat)(body)
            test = settings(max_examples=per_worker, deadline=None, database=None, report_multiple_bugs=False,
                            derandomize=False, print_blob=False,
                            suppress_health_check=[HealthCheck.too_slow, HealthCheck.data_too_large,
                                                   HealthCheck.large_base_example],
                            phases=(Phase.generate, Phase.shrink) if sub.shrink else (Phase.generate,))(test)
            test = hypothesis.seed(derive_seed(seed0, prop, sub.name, w, rnd))(test)
            try:
                test()
                break
            except Violation as v:
                b = "%s:%s" % (sub.name, v.bucket)
                if sub.minimize is not None:
                    def fails(p, _bucket=v.bucket):
                        try:
                            sub.evaluate(p, ctx)
                        except Violation as v2:
                            return v2 if v2.bucket == _bucket else None
                        return None
                    try:
                        small = sub.minimize(v.plan, fails)
                        v2 = fails(small)
                        if v2 is not None:
                            v2.plan = small
                            v = v2
                    except Exception:
                        res["errors"].append({"subcheck": sub.name, "trace": traceback.format_exc()[-4000:]})
                ignored.add(b)
                res["violations"].append({"subcheck": sub.name, "bucket": b, "clause": v.clause,
                                          "detail": v.detail[:2000], "plan": v.plan})
            except Exception:
                res["errors"].append({"subcheck": sub.name, "trace": traceback.format_exc()[-4000:]})
                break
        st["nontrivial"] = sorted(nt_set)
        st["wall_s"] = time.time() - t0
    res["excluded"] = dict(ctx.excluded)
    for st in res["subchecks"].values():
        st["events"] = dict(st["events"])
        st["known_hits"] = dict(st["known_hits"])
    with open(out_path, "w") as f:
        json.dump(res, f, default=str)
    return 0


# ------------------------------------------------------------------------------------------------
# parent

def write_failure(prop, rec):
    d = os.path.join(env.VERIF_DIR, "failures", prop)
    os.makedirs(d, exist_ok=True)
    path = os.path.join(d, slug(rec["bucket"]) + ".json")
    with open(path, "w") as f:
        json.dump({"property": prop, "subcheck": rec["subcheck"], "clause": rec["clause"],
                   "detail": rec["detail"], "plan": rec["plan"]}, f, indent=1, default=str)
    return path


def parent_main(prop, tier, only=None):
    env.setup_paths()
    t0 = time.time()
    mod = load_check(prop)
    seed = env.verif_seed()
    ctx = Ctx(prop, tier)
    lines = []
    violations = []           # (bucket, path)
    known_printed = []
    # 1. known findings and fixed defects
    replay_files_used = set()
    for e in load_findings(prop):
        rp = os.path.join(env.VERIF_DIR, e["replay"])
        replay_files_used.add(os.path.realpath(rp))
        with open(rp) as f:
            rec = json.load(f)
        v = eval_replay(mod, rec, ctx)
        if e["status"] == "known":
            if v is not None:
                print("KNOWN-FINDING: property=%s %s" % (prop, e["what"]))
                known_printed.append(e["key"])
                ctx.active.add(e["key"])
            else:
                lines.append("known finding %s no longer reproduces (signature not activated)" % e["key"])
        elif e["status"] == "fixed":
            if v is not None:
                violations.append(("fixed-returned:" + e["key"], rp))
    # 2. committed regression plans (must pass)
    rdir = os.path.join(env.VERIF_DIR, "replays", prop)
    n_regress = 0
    if os.path.isdir(rdir):
        for fn in sorted(os.listdir(rdir)):
            p = os.path.join(rdir, fn)
            if not fn.endswith(".json") or os.path.realpath(p) in replay_files_used:
                continue
            with open(p) as f:
                rec = json.load(f)
            if only and rec["subcheck"] not in only:
                continue
            n_regress += 1
            v = eval_replay(mod, rec, ctx)
            if v is not None and match_known(mod, ctx, rec["plan"], v) is None:
                violations.append(("regression:" + fn, p))
    # 3. generated search, sharded
    tmp = tempfile.mkdtemp(prefix="verif_%s_" % prop)
    procs = []
    try:
        for w in range(N_WORKERS):
            out = os.path.join(tmp, "w%d.json" % w)
            cmd = [sys.executable, os.path.join(env.VERIF_DIR, "run_check.py"), prop, "--tier", tier,
                   "--worker", str(w), "--nworkers", str(N_WORKERS), "--out", out,
                   "--active", ",".join(sorted(ctx.active))]
            if only:
                cmd += ["--only", ",".join(only)]
            log = open(os.path.join(tmp, "w%d.log" % w), "w")
            procs.append((w, out, log, subprocess.Popen(cmd, stdout=log, stderr=subprocess.STDOUT,
                                                        env=env.child_env({"_VERIF_PINNED": "1"}))))
        results, harness_errors = [], []
        for w, out, log, p in procs:
            rc = p.wait()
            log.close()
            if rc != 0 or not os.path.exists(out):
                with open(log.name) as f:
                    harness_errors.append("worker %d exit %s: %s" % (w, rc, f.read()[-3000:]))
                continue
            with open(out) as f:
                results.append(json.load(f))
    finally:
        import shutil
        shutil.rmtree(tmp, ignore_errors=True)
    # 4. merge
    subs = {}
    excluded = Counter()
    seen_buckets = {}
    for r in results:
        for e in r["errors"]:
            harness_errors.append("worker %d subcheck %s:\n%s" % (r["worker"], e["subcheck"], e["trace"]))
        for k, n in r.get("excluded", {}).items():
            excluded[k] += n
        for v in r["violations"]:
            cur = seen_buckets.get(v["bucket"])
            if cur is None or len(json.dumps(v["plan"], default=str)) < len(json.dumps(cur["plan"], default=str)):
                seen_buckets[v["bucket"]] = v
        for name, st in r["subchecks"].items():
            m = subs.setdefault(name, {"evaluations": 0, "nontrivial": set(), "events": Counter(),
                                       "samples_nt": [], "samples_tr": [], "known_hits": Counter(),
                                       "skipped": 0, "budget_exhausted": 0, "wall_s": 0.0, "exhaustive": False})
            m["evaluations"] += st["evaluations"]
            m["nontrivial"].update(st["nontrivial"])
            m["events"].update(st["events"])
            m["known_hits"].update(st["known_hits"])
            m["skipped"] += st["skipped"]
            m["budget_exhausted"] += 1 if st["budget_exhausted"] else 0
            m["wall_s"] = max(m["wall_s"], st["wall_s"])
            m["exhaustive"] = m["exhaustive"] or st["exhaustive"]
            if len(m["samples_nt"]) < 3:
                m["samples_nt"].extend(st["samples_nt"][:1])
            if len(m["samples_tr"]) < 1:
                m["samples_tr"].extend(st["samples_tr"][:1])
    for b, v in sorted(seen_buckets.items()):
        violations.append((b, write_failure(prop, v)))
    evaluations = sum(m["evaluations"] for m in subs.values())
    distinct_nt = sum(len(m["nontrivial"]) for m in subs.values())
    samples = []
    for name, m in subs.items():
        for p in m["samples_nt"][:3]:
            samples.append({"subcheck": name, "nontrivial": True, "plan": compact_sample(p)})
        for p in m["samples_tr"][:1]:
            samples.append({"subcheck": name, "nontrivial": False, "plan": compact_sample(p)})
    sub_table = {name: {"evaluations": m["evaluations"], "distinct_nontrivial": len(m["nontrivial"]),
                        "skipped_ambiguous": m["skipped"], "known_finding_hits": dict(m["known_hits"]),
                        "workers_out_of_time": m["budget_exhausted"], "exhaustive": m["exhaustive"],
                        "wall_s": round(m["wall_s"], 1),
                        "events": dict(sorted(m["events"].items(), key=lambda kv: (-kv[1], kv[0]))[:60])}
                 for name, m in subs.items()}
    wall = time.time() - t0
    evidence = {
        "property_id": prop, "tier": tier, "seed": seed, "level": mod.LEVEL,
        "coverage": {
            "evaluations": evaluations, "distinct_nontrivial": distinct_nt, "rule": mod.RULE,
            "samples": samples[:10], "subchecks": sub_table,
            "regression_replays_run": n_regress, "known_findings_printed": known_printed,
            "excluded_by_active_known_finding": dict(excluded),
            "exhaustive": bool(subs) and all(m["exhaustive"] for m in subs.values()),
            "workers": N_WORKERS, "notes": lines,
        },
        "assumptions": list(mod.ASSUMPTIONS), "wall_s": round(wall, 2), "violations": len(violations),
    }
    os.makedirs(os.path.join(env.VERIF_DIR, "evidence"), exist_ok=True)
    with open(os.path.join(env.VERIF_DIR, "evidence", "%s.json" % prop), "w") as f:
        json.dump(evidence, f, indent=1, default=str)
    for b, path in violations:
        print("VIOLATION property=%s replay=%s bucket=%s" % (prop, os.path.relpath(path, env.VERIF_DIR), b))
    if harness_errors:
        sys.stderr.write("HARNESS ERROR in %s:\n%s\n" % (prop, "\n".join(harness_errors)[:8000]))
    floor = getattr(mod, "NT_FLOOR", 0.02)
    print("%s %s seed=%d: %d evaluations, %d distinct non-trivial, %d violation bucket(s), %.1fs"
          % (prop, tier, seed, evaluations, distinct_nt, len(violations), wall))
    if violations:
        return 1
    if harness_errors:
        return 2
    if evaluations == 0 or distinct_nt < max(2, floor * evaluations):
        sys.stderr.write("HARNESS ERROR: generator degraded (%d non-trivial of %d)\n" % (distinct_nt, evaluations))
        return 2
    return 0


def replay_main(prop, path):
    env.setup_paths()
    mod = load_check(prop)
    ctx = Ctx(prop, "quick")
    with open(path) as f:
        rec = json.load(f)
    # activate the known findings that still reproduce, as a normal run would
    for e in load_findings(prop):
        if e["status"] != "known":
            continue
        with open(os.path.join(env.VERIF_DIR, e["replay"])) as f:
            krec = json.load(f)
        if eval_replay(mod, krec, ctx) is not None:
            ctx.active.add(e["key"])
    v = eval_replay(mod, rec, ctx)
    if v is None:
        print("replay passes: %s" % path)
        return 0
    key = match_known(mod, ctx, rec["plan"], v)
    if key is not None:
        what = [e["what"] for e in load_findings(prop) if e["key"] == key][0]
        print("KNOWN-FINDING: property=%s %s" % (prop, what))
        return 0
    print("VIOLATION property=%s replay=%s clause=%s" % (prop, path, v.clause))
    print("detail: %s" % v.detail[:3000])
    return 1
