"""Thorough-tier coverage-guided campaigns (atheris) wired into the sharded runner as 'external' sub-checks."""
import json
import os
import shutil
import subprocess
import sys
import tempfile

from vlib import env


def atheris_external(prop, target_sub, seconds=150):
    """-> external(tier, ctx, worker, nworkers) running tools/fuzz_campaign.py for this worker's shard."""
    def external(tier, ctx, w, nw):
        if tier != "thorough":
            return None
        secs = int(os.environ.get("VERIF_FUZZ_SECONDS", seconds))
        d = tempfile.mkdtemp(prefix="verif_fuzz_%s_" % prop)
        out = os.path.join(d, "result.json")
        corpus = "seeded" if w % 2 else "empty"
        cmd = [sys.executable, os.path.join(env.VERIF_DIR, "tools", "fuzz_campaign.py"), prop, target_sub,
               "--seconds", str(secs), "--seed", str(env.verif_seed() * 1000 + w), "--corpus", corpus,
               "--out", out, "--workdir", d, "--active", ",".join(sorted(ctx.active))]
        try:
            r = subprocess.run(cmd, capture_output=True, text=True, env=env.child_env({"_VERIF_PINNED": "1"}),
                               timeout=secs * 3 + 300)
            if not os.path.exists(out):
                return {"error": "campaign produced no result: %s" % (r.stderr[-1500:],)}
            res = json.load(open(out))
        except subprocess.TimeoutExpired:
            return {"error": "campaign timed out"}
        finally:
            shutil.rmtree(d, ignore_errors=True)
        if "unavailable" in res:
            return {"evaluations": 0, "nontrivial": [], "events": {"atheris_unavailable": 1}, "violations": []}
        ev = dict(res.get("events", {}))
        ev["campaign_corpus=" + corpus] = 1
        return {"evaluations": res["evaluations"], "nontrivial": res["nontrivial"], "events": ev,
                "violations": res["violations"]}
    return external
