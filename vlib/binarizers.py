"""Picklable, JSON-describable Thompson binarizers: binarizer(arm, reward) -> 0/1.

desc = {"kind": "threshold", "op": "ge"|"le", "table": [[arm, t], ...], "default": t}
     | {"kind": "parity"}                       reward is a success when round(reward) is even
     | {"kind": "flip"}                         1 - reward on {0,1}: an involution, not idempotent
     | {"kind": "strkey", "table": [[str(arm), t], ...], "default": t}   thresholds looked up under the label's text (a
                                                table read from JSON), answer computed with numpy-friendly arithmetic: the
                                                function accepts whole arrays without raising but is not element-wise then
any desc may carry "poison": v - the binarizer raises ValueError for the reward v (a value it cannot convert), whatever
the arm: the way a user function fails in the middle of a batch
"""


class Threshold:
    def __init__(self, table, op, default):
        self.table = [[a, t] for a, t in table]
        self.op = op
        self.default = default

    def _t(self, arm):
        for a, t in self.table:
            if a == arm:
                return t
        return self.default

    def __call__(self, arm, reward):
        t = self._t(arm)
        if self.op == "ge":
            return 1 if reward >= t else 0
        return 1 if reward <= t else 0

    def __eq__(self, other):
        return isinstance(other, Threshold) and (self.table, self.op, self.default) == \
            (other.table, other.op, other.default)

    def __hash__(self):
        return hash((self.op, self.default))

    def __repr__(self):
        return "Threshold(%r,%r,%r)" % (self.table, self.op, self.default)


def key_of(arm):
    """Text under which a label is looked up: the label itself for text labels, the repr of its value as a float for
    numbers (1, 1.0 and numpy's 1.0 are one label - which of them reaches a binarizer depends on how the batch was
    converted, which the library does not promise).  Anything else (a whole array) has a text no table contains."""
    if isinstance(arm, str):
        return str(arm)
    try:
        return repr(float(arm))
    except (TypeError, ValueError):
        return str(arm)


class StrKey:
    def __init__(self, table, default):
        self.table = {str(k): t for k, t in table}
        self.default = default

    def __call__(self, arm, reward):
        return (reward >= self.table.get(key_of(arm), self.default)) * 1

    def __eq__(self, other):
        return isinstance(other, StrKey) and (self.table, self.default) == (other.table, other.default)

    def __hash__(self):
        return hash(self.default) + 23

    def __repr__(self):
        return "StrKey(%r,%r)" % (self.table, self.default)


class Parity:
    def __call__(self, arm, reward):
        return 1 if int(round(float(reward))) % 2 == 0 else 0

    def __eq__(self, other):
        return isinstance(other, Parity)

    def __hash__(self):
        return 17

    def __repr__(self):
        return "Parity()"


class Flip:
    def __call__(self, arm, reward):
        return 0 if reward >= 1 else 1

    def __eq__(self, other):
        return isinstance(other, Flip)

    def __hash__(self):
        return 19

    def __repr__(self):
        return "Flip()"


class Poisoned:
    def __init__(self, inner, poison):
        self.inner = inner
        self.poison = poison

    def __call__(self, arm, reward):
        if reward == self.poison:
            raise ValueError("binarizer: cannot convert reward %r" % (reward,))
        return self.inner(arm, reward)

    def __eq__(self, other):
        return isinstance(other, Poisoned) and (self.inner, self.poison) == (other.inner, other.poison)

    def __hash__(self):
        return hash(self.inner) + 1

    def __repr__(self):
        return "Poisoned(%r,%r)" % (self.inner, self.poison)


def make(desc):
    if desc is None:
        return None
    if desc.get("poison") is not None:
        return Poisoned(make({k: v for k, v in desc.items() if k != "poison"}), desc["poison"])
    kind = desc["kind"]
    if kind == "threshold":
        return Threshold(desc["table"], desc.get("op", "ge"), desc.get("default", 0))
    if kind == "strkey":
        return StrKey(desc["table"], desc.get("default", 0))
    if kind == "parity":
        return Parity()
    if kind == "flip":
        return Flip()
    raise ValueError(desc)
