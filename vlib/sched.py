"""A schedule-owning replacement for joblib.Parallel (C05).

Installed over `mabwiser.base_mab.Parallel` and `mabwiser.approximate.Parallel` by `owned_schedule(...)`.  The tasks of
one Parallel call are executed one after the other in an order chosen by the harness:

* require='sharedmem' calls (per-arm fit tasks, per-hash insert tasks) run on the shared object, as joblib's
  threading backend does, in the chosen order, and every task's write set is recorded by diffing the implementor's
  arm-keyed state before and after the task;
* all other calls (per-chunk predict / hashing tasks) run either on the shared object ('thread' mode) or each on its
  own pickled copy of the bound method's object ('process' mode), in the chosen order; results are returned in task
  order, as joblib does.
"""
import contextlib
import pickle

import numpy as np


class Schedule:
    def __init__(self, keys, mode="thread", monitor=None):
        self.keys = list(keys) or [0]
        self.mode = mode
        self.calls = 0
        self.nonidentity = 0
        self.max_tasks = 0
        self.monitor = monitor
        self.write_violations = []

    def order(self, n):
        ks = [self.keys[(self.calls * 7 + i) % len(self.keys)] for i in range(n)]
        self.calls += 1
        order = sorted(range(n), key=lambda i: (ks[i], i))
        if order != list(range(n)):
            self.nonidentity += 1
        self.max_tasks = max(self.max_tasks, n)
        return order


def _state(obj):
    """arm-keyed and scalar state of an implementor, as comparable bytes."""
    out = {}
    for name, v in vars(obj).items():
        if name in ("lp", "lp_list", "kmeans"):
            continue
        try:
            if isinstance(v, dict):
                flat = {}
                for k, x in v.items():
                    if isinstance(x, dict):            # two-level maps: table -> hash -> rows, arm -> leaf -> rewards
                        flat[(repr(k),)] = repr(sorted(map(repr, x.keys()))).encode()
                        for h, y in x.items():
                            flat[(repr(k), repr(h))] = _b(y)
                    else:
                        flat[(repr(k),)] = _b(x)
                out[name] = flat
            else:
                out[name] = _b(v)
        except Exception:
            out[name] = b"?"
    return out


def _b(v):
    if type(v).__name__ == "_NumpyRNG":
        return repr(v.rng.bit_generator.state["state"]).encode()
    if isinstance(v, np.ndarray):
        return v.tobytes() + repr(v.shape).encode()
    if isinstance(v, dict):
        return b"{" + b",".join(repr(k).encode() + b":" + _b(x) for k, x in v.items()) + b"}"
    return pickle.dumps(v, protocol=4)


def _diff(a, b):
    """-> set of (attribute, key or None) that differ."""
    ch = set()
    for name in set(a) | set(b):
        x, y = a.get(name), b.get(name)
        if isinstance(x, dict) and isinstance(y, dict):
            for k in set(x) | set(y):
                if x.get(k) != y.get(k):
                    ch.add((name, k))
        elif x != y:
            ch.add((name, None))
    return ch


def make_parallel(schedule):
    class OwnedParallel:
        def __init__(self, n_jobs=None, backend=None, require=None, **kw):
            self.require = require

        def __call__(self, iterable):
            tasks = list(iterable)
            order = schedule.order(len(tasks))
            results = [None] * len(tasks)
            for i in order:
                func, args, kwargs = tasks[i]
                if self.require == "sharedmem":
                    owner = getattr(func, "__self__", None)
                    before = _state(owner) if owner is not None else None
                    results[i] = func(*args, **kwargs)
                    if owner is not None:
                        changed = _diff(before, _state(owner))
                        allowed = _allowed(func, args)
                        bad = sorted((n, k) for (n, k) in changed if not allowed(n, k))
                        if bad:
                            schedule.write_violations.append((func.__name__, repr(args[0])[:40], bad[:6]))
                elif schedule.mode == "process" and getattr(func, "__self__", None) is not None:
                    f2, a2 = pickle.loads(pickle.dumps((func, args), protocol=4))
                    results[i] = f2(*a2, **kwargs)
                else:
                    results[i] = func(*args, **kwargs)
            return results
    return OwnedParallel


def _allowed(func, args):
    name = func.__name__
    if name == "_fit_arm":
        arm = repr(args[0])
        return lambda attr, key: key is not None and key[0] == arm
    if name == "_add_neighbors":
        k, h = repr(args[1]), repr(args[2])
        return lambda attr, key: attr == "table_to_hash_to_index" and key in ((k, h), (k,))
    return lambda attr, key: False


@contextlib.contextmanager
def owned_schedule(schedule):
    import mabwiser.approximate as ap
    import mabwiser.base_mab as bm
    saved = (bm.Parallel, ap.Parallel)
    p = make_parallel(schedule)
    bm.Parallel = p
    ap.Parallel = p
    try:
        yield schedule
    finally:
        bm.Parallel, ap.Parallel = saved


# ---- cooperative interleaving of prediction tasks at function-call granularity ----------------------------------------

import sys
import threading


def interleaved(tasks, schedule, trace_prefix):
    """Run the thunks in `tasks` as threads of which exactly one runs at a time; at every call of a Python function
    whose file lies under `trace_prefix` the running thread consults `schedule` (a list of small ints, cycled) to
    decide which thread continues.  Deterministic for a given schedule.  Returns (results, number of switches);
    an exception raised by a task is re-raised."""
    n = len(tasks)
    cond = threading.Condition()
    state = {"current": 0, "done": [False] * n, "pos": 0, "switches": 0}
    results = [None] * n
    errors = [None] * n

    def alive():
        return [i for i in range(n) if not state["done"][i]]

    def pick(me):
        a = alive()
        if not a:
            return None
        k = schedule[state["pos"] % len(schedule)] if schedule else 0
        state["pos"] += 1
        return a[k % len(a)]

    def yield_point(me):
        with cond:
            nxt = pick(me)
            if nxt is not None and nxt != me:
                state["current"] = nxt
                state["switches"] += 1
                cond.notify_all()
                while state["current"] != me:
                    cond.wait()

    def run(me):
        def tracer(frame, event, arg):
            if event == "call" and frame.f_code.co_filename.startswith(trace_prefix):
                yield_point(me)
            return None
        with cond:
            while state["current"] != me:
                cond.wait()
        sys.settrace(tracer)
        try:
            results[me] = tasks[me]()
        except BaseException as e:  # noqa
            errors[me] = e
        finally:
            sys.settrace(None)
            with cond:
                state["done"][me] = True
                a = alive()
                if a:
                    state["current"] = a[0]
                cond.notify_all()

    threads = [threading.Thread(target=run, args=(i,), daemon=True) for i in range(n)]
    for t in threads:
        t.start()
    for t in threads:
        t.join(120)
    if any(t.is_alive() for t in threads):
        raise RuntimeError("interleaved tasks did not finish")
    for e in errors:
        if e is not None:
            raise e
    return results, state["switches"]
