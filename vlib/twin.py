"""Helpers shared by the differential-twin checks (C06, C07, C10, C17, C19 ...)."""
from vlib import ops
from vlib.runner import Violation

DETERMINISTIC_LP = ("UCB1", "LinUCB")


def is_deterministic(cfg):
    name, p = cfg["lp"]
    if name in DETERMINISTIC_LP:
        return True
    if name in ("EpsilonGreedy", "LinGreedy"):
        return p.get("epsilon", 0.1) == 0
    return False


def pair_events(cfg):
    return ["lp=" + cfg["lp"][0], "np=" + (cfg["np"][0] if cfg.get("np") else "none")]


def run_both(a, b, op_list, clause, what_a="A", what_b="B", rtol=0.0, atol=0.0, start=0, bucket=None,
             allow_exc=False):
    """Apply the same ops to both bandits; every output must agree.  Returns the outputs of a."""
    outs = []
    for i, op in enumerate(op_list):
        oa = ops.apply_op(a, op)
        ob = ops.apply_op(b, op)
        if not ops.outputs_equal(oa, ob, rtol, atol):
            raise Violation(clause, "op %d %s: %s gave %s, %s gave %s"
                            % (start + i, ops.short(op, 160), what_a, ops.short(oa), what_b, ops.short(ob)),
                            bucket=bucket)
        if ops.is_exc(oa) and not allow_exc:
            raise Violation("unexpected_exception", "op %d %s raised %s on both" % (start + i, op[0], ops.short(oa)),
                            bucket="unexpected_exception:%s:%s" % (op[0], oa[1]))
        outs.append(oa)
    return outs


def must_succeed(mab, op_list, what=""):
    outs = []
    for i, op in enumerate(op_list):
        o = ops.apply_op(mab, op)
        if ops.is_exc(o):
            raise Violation("unexpected_exception", "%s op %d %s raised %s" % (what, i, ops.short(op, 160), ops.short(o)),
                            bucket="unexpected_exception:%s:%s" % (op[0], o[1]))
        outs.append(o)
    return outs


def expectations_gap(out):
    """Smallest top-two gap over the rows of a canonical predict_expectations output (inf if one arm / NaN)."""
    rows = out[1] if out[0] == "L" else [out[1]]
    gap = float("inf")
    for r in rows:
        vals = sorted((v for _, v in r if v == v), reverse=True)
        if len(vals) >= 2:
            gap = min(gap, vals[0] - vals[1])
    return gap
