"""Generated simulations shared by C15 and C16, and an independent public-API replay of the simulator's protocol."""
import copy
import logging
import math

import numpy as np
from hypothesis import strategies as st

from vlib import gen, ops

D8 = "D8-lints-neighbourhood-simulator"


@st.composite
def sim_plan_st(draw, tier, ctx=None, want_absent_arms=False, max_bandits=3):
    kind, arms = draw(gen.arms_st(("int", "str"), 2, 4))
    contextual_data = draw(st.integers(0, 4)) > 0
    n = draw(st.integers(8, 40))
    d = draw(st.integers(1, 3))
    nb = draw(st.integers(1, max_bandits))
    bandits = []
    same_np = draw(st.sampled_from([None, None, "Radius", "KNearest", "LSHNearest"]))   # several neighbourhood bandits, other metrics
    # related metrics in one simulation (one is a function of the other: anything derived from the shared distance
    # cache instead of computed shows as a rounding difference at the radius)
    related = contextual_data and nb > 1 and draw(st.integers(0, 3)) == 0
    for i in range(nb):
        nps = gen.ALL_NP if contextual_data else [None]
        lps = gen.ALL_LP if contextual_data else list(ops.CONTEXT_FREE)
        if contextual_data and same_np and nb > 1:
            nps = [same_np]
        for _ in range(10):
            cfg = draw(gen.config_st(lps=lps, nps=nps, arm_kinds=(kind,), with_binarizer=False, scale_ok=True,
                                     prob_ok=True, defaults_ok=False, min_arms=1, max_arms=1,
                                     metrics=gen.MANY_METRICS))
            if ctx is not None and D8 in ctx.active and cfg["lp"][0] == "LinTS" and cfg["np"] and \
                    cfg["np"][0] in ("Radius", "KNearest", "LSHNearest"):
                ctx.exclude(D8)
                continue
            break
        else:
            cfg["lp"] = ["UCB1", {"alpha": 1}]
        if related:
            if not (cfg["np"] and cfg["np"][0] in ("Radius", "KNearest")):
                cfg["np"] = draw(gen.np_st([draw(st.sampled_from(["Radius", "Radius", "KNearest"]))], arms, True, False,
                                           gen.EXACT_METRICS))
            cfg["np"][1]["metric"] = draw(st.sampled_from(["euclidean", "sqeuclidean", "minkowski", "euclidean",
                                                           "sqeuclidean"]))
        if cfg["np"] and cfg["np"][0] in ("LSHNearest", "Radius", "KNearest") and draw(st.booleans()):
            # the simulator re-implements these policies: give half of them a deterministic learning policy, whose
            # reported expectations are compared bit for bit
            cfg["lp"] = draw(st.sampled_from([["EpsilonGreedy", {"epsilon": 0}], ["UCB1", {"alpha": 1}],
                                              ["UCB1", {"alpha": 0.5}]]))
        cfg["arms"] = list(arms)
        if i > 0 and draw(st.booleans()):
            # the same arms listed in another order: the simulator takes its arm list from the first bandit only
            cfg["arms"] = draw(gen.perm_st(arms))
        if cfg["np"] and cfg["np"][1].get("no_nhood_prob_of_arm"):
            cfg["np"][1]["no_nhood_prob_of_arm"] = draw(gen.prob_list_st(len(arms)))
        bandits.append({"name": "b%d" % i, "config": cfg})
    min_train = 1
    thompson = False
    popularity = False
    for b in bandits:
        c = b["config"]
        if c["np"] and c["np"][0] == "KNearest":
            min_train = max(min_train, c["np"][1].get("k", 1))
        if c["np"] and c["np"][0] == "Clusters":
            min_train = max(min_train, c["np"][1].get("n_clusters", 2))
        thompson = thompson or c["lp"][0] == "ThompsonSampling"
        popularity = popularity or c["lp"][0] == "Popularity"
    binarized = False
    if thompson and not popularity and draw(st.booleans()):
        # Thompson bandits with a binarizer: the simulator's neighbourhood re-implementations keep the raw rewards for
        # their statistics next to the converted ones
        binarized = True
        for b in bandits:
            if b["config"]["lp"][0] == "ThompsonSampling":
                b["config"]["lp"] = ["ThompsonSampling", {"binarizer": draw(gen.binarizer_st(arms))}]
    # "D": one-decimal rewards, whose sums depend on the order of summation in the last bit
    fam = draw(st.sampled_from(["S", "Sint"])) if binarized else "B" if thompson else (draw(st.sampled_from(["Epos", "D"])) if popularity else
                                draw(st.sampled_from(["E", "Eint", "T", "D", "D"])))
    pool = arms
    if want_absent_arms and len(arms) > 2 and draw(st.booleans()):
        pool = arms[:-1]            # an arm that never occurs in the data
    big = draw(st.integers(0, 13)) == 0
    if big:
        # now and then a data set of a few hundred rows (a drawn block, tiled): more than 100 test rows per batch
        blk = draw(st.integers(9, 13))
        bd = draw(st.lists(st.sampled_from(pool), min_size=blk, max_size=blk))
        br = draw(st.lists(gen.reward_st(fam), min_size=blk, max_size=blk))
        bc = draw(gen.contexts_st(blk, d, "int")) if contextual_data else None
        t = draw(st.sampled_from([18, 24, 30]))
        decisions, rewards = bd * t, br * t
        contexts = [list(r) for _ in range(t) for r in bc] if bc is not None else None
        n = len(decisions)
    else:
        decisions = draw(st.lists(st.sampled_from(pool), min_size=n, max_size=n))
        rewards = draw(st.lists(gen.reward_st(fam), min_size=n, max_size=n))
        contexts = draw(gen.contexts_st(n, d, draw(st.sampled_from(["int", "small"])))) if contextual_data else None
    if contexts is not None:
        # Radius bandits: two times in three the radius is a realised distance between two data rows under the
        # bandit's metric (rows exactly on the boundary, neighbourhoods neither empty nor everything)
        for b in bandits:
            c = b["config"]
            if c["np"] and c["np"][0] == "Radius" and "radius" in c["np"][1] and draw(st.integers(0, 2)):
                from scipy.spatial.distance import cdist
                try:
                    dm = cdist(np.asarray(contexts, dtype=float), np.asarray(contexts, dtype=float),
                               metric=c["np"][1]["metric"])
                except Exception:
                    continue
                vals = sorted({float(v) for v in dm.ravel() if np.isfinite(v) and v > 0})
                if vals:
                    c["np"][1]["radius"] = vals[draw(st.integers(0, len(vals) - 1))]
    n_test = draw(st.integers(1, max(1, n - max(min_train, 2))))
    test_size = (n_test - 0.5) / n
    exact_count = True
    if draw(st.booleans()):
        # a 'round' decimal fraction, as users write it: n * test_size may land on or next to an integer in floating
        # point, where int(n * (1 - test_size)) and ceil(n * test_size) need not add up to n
        import math
        cands = [k / 100.0 for k in range(5, 96)]
        ok = [t for t in cands if int(n * (1 - t)) >= min_train and n - int(n * (1 - t)) >= 1
              and n - math.ceil(t * n) >= min_train and math.ceil(t * n) >= 1]
        edge = [t for t in ok if abs(n * t - round(n * t)) < 1e-9 or abs(n * (1 - t) - round(n * (1 - t))) < 1e-9]
        if edge and draw(st.booleans()):
            ok = edge           # products that are integers up to rounding: where two ways of counting can disagree
        if ok:
            test_size = draw(st.sampled_from(ok))
            n_test = min(n - int(n * (1 - test_size)), math.ceil(test_size * n))
            exact_count = False
    if big:
        test_size = draw(st.sampled_from([0.5, 0.6, 0.55]))
        import math as _m
        n_test = min(n - int(n * (1 - test_size)), _m.ceil(test_size * n))
        exact_count = False
    online = draw(st.booleans())
    batch_size = draw(st.integers(1, n_test)) if online else 0
    if big and online:
        batch_size = draw(st.sampled_from([x for x in (101, 120, 150, 200, 64, 100) if x <= n_test]))
    # "every bandit handed to the Simulator" includes bandits that have a life behind them: one in three has been trained
    # and queried through the public API before (its generator has moved, LSH planes were drawn once already, ...)
    for b in bandits:
        if draw(st.integers(0, 2)) == 0:
            b["pre"] = {"rows": draw(st.integers(min(n, max(min_train, 2)), n)), "queries": draw(st.integers(1, 3)),
                        "expectations": draw(st.booleans())}
    scaler = None
    if contexts is not None and draw(st.integers(0, 5)) == 0:
        scaler = draw(st.sampled_from(["standard", "minmax"]))   # the Simulator's own scaler argument
    return {"scaler": scaler, "arms": arms, "bandits": bandits, "decisions": decisions, "rewards": rewards, "contexts": contexts,
            "test_size": test_size, "n_test": n_test, "exact_count": exact_count, "is_ordered": draw(st.booleans()), "batch_size": batch_size,
            "is_quick": draw(st.booleans()), "seed": draw(st.integers(0, 2 ** 16)),
            "binarized": binarized,
            "data_container": draw(st.sampled_from(["list", "ndarray", "list", "ndarray", "dataframe", "fortran"]))}


def build_bandits(plan):
    out = []
    for b in plan["bandits"]:
        mab = ops.build(b["config"])
        pre = b.get("pre")
        if pre:
            # used before: fit on the first rows of the data set, then a few queries (the copies the replay uses are
            # taken afterwards, so both sides start from the same used bandit)
            k = pre["rows"]
            try:
                ctx = np.asarray(plan["contexts"][:k], dtype=float) if plan["contexts"] is not None else None
                mab.fit(list(plan["decisions"][:k]), list(plan["rewards"][:k]), ctx)
                for j in range(pre["queries"]):
                    q = ctx[j % k: j % k + 2] if ctx is not None else None
                    mab.predict(q)
                    if pre["expectations"]:
                        mab.predict_expectations(q)
            except Exception:
                mab = ops.build(b["config"])      # data the configuration rejects (data-dependent metrics): a fresh one
        out.append((b["name"], mab))
    return out


def make_scaler(plan):
    if plan.get("scaler") == "standard":
        from sklearn.preprocessing import StandardScaler
        return StandardScaler()
    if plan.get("scaler") == "minmax":
        from sklearn.preprocessing import MinMaxScaler
        return MinMaxScaler()
    return None


def run_simulator(plan, bandits):
    """Run the real Simulator on the given (name, MAB) list; returns the simulator object."""
    from mabwiser.simulator import Simulator
    dec, rew, cx = plan["decisions"], plan["rewards"], plan["contexts"]
    if plan.get("data_container") == "ndarray":
        dec, rew = np.asarray(dec), np.asarray(rew)
        cx = np.asarray(cx) if cx is not None else None
    elif plan.get("data_container") == "dataframe":
        import pandas as pd
        dec, rew = pd.Series(dec), pd.Series(rew)
        cx = pd.DataFrame(cx) if cx is not None else None
    elif plan.get("data_container") == "fortran":
        dec, rew = np.asarray(dec), np.asarray(rew)
        cx = np.asfortranarray(np.asarray(cx)) if cx is not None else None
    try:
        sim = Simulator(bandits=list(bandits), decisions=dec, rewards=rew, contexts=cx, scaler=make_scaler(plan),
                        test_size=plan["test_size"], is_ordered=plan["is_ordered"], batch_size=plan["batch_size"],
                        seed=plan["seed"], is_quick=plan["is_quick"])
        sim.run()
    finally:
        root = logging.getLogger()
        for h in list(root.handlers):
            root.removeHandler(h)
    return sim


def split(plan):
    """Independent train/test split (sklearn's train_test_split is trusted for the random case)."""
    n = len(plan["decisions"])
    if plan["is_ordered"]:
        train_size = int(n * (1 - plan["test_size"]))
        return list(range(train_size)), list(range(train_size, n))
    from sklearn.model_selection import train_test_split
    tr, te = train_test_split(list(range(n)), test_size=plan["test_size"], random_state=plan["seed"])
    return list(tr), list(te)


def take(xs, idx):
    return [xs[i] for i in idx] if xs is not None else None


def api_replay(plan, mab, with_expectation_calls):
    """Drive one bandit through the public API with the simulator's protocol.

    Returns (predictions, expectations) where expectations is a list of canonical outputs (one per predict call)
    or None when with_expectation_calls is False."""
    tr, te = split(plan)
    dec, rew, cx = plan["decisions"], plan["rewards"], plan["contexts"]
    contextual = mab.is_contextual
    cx_te = take(cx, te)
    cx_tr = take(cx, tr)
    sc = make_scaler(plan)
    if sc is not None and cx is not None:
        # documented protocol: the scaler is fitted on the training contexts and applied to the test contexts
        cx_tr = sc.fit_transform(np.asarray(cx)[tr])
        cx_te = sc.transform(np.asarray(cx)[te])
    if contextual:
        mab.fit(take(dec, tr), take(rew, tr), cx_tr)
    else:
        mab.fit(take(dec, tr), take(rew, tr))
    preds, exps = [], []
    bs = plan["batch_size"] or len(te)
    for start in range(0, len(te), bs):
        idx = te[start:start + bs]
        cxb = cx_te[start:start + bs] if cx_te is not None else None
        if contextual:
            p = mab.predict(cxb)
            p = p if isinstance(p, list) else [p]
            preds += [ops.py(x) for x in p]
            if with_expectation_calls:
                e = mab.predict_expectations(cxb)
                e = e if isinstance(e, list) else [e]
                exps += [ops.canon_expectations(x) for x in e]
        else:
            if with_expectation_calls:
                # the state the simulator reads before the batch is learnt: one entry per batch
                pass
            for _ in idx:
                preds.append(ops.py(mab.predict()))
            if with_expectation_calls:
                exps.append(ops.canon_expectations(mab.predict_expectations()))
        if plan["batch_size"]:
            if contextual:
                mab.partial_fit(take(dec, idx), take(rew, idx), cxb)
            else:
                mab.partial_fit(take(dec, idx), take(rew, idx))
    return preds, (exps if with_expectation_calls else None)


def is_replaced(cfg):
    return bool(cfg["np"]) and cfg["np"][0] in ("Radius", "KNearest", "LSHNearest")
