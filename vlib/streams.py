"""Random-stream control: find every generator wrapper reachable from a bandit, copy positions.

"From the same random-stream position" (C06, C07, C10, C17, C19) is made operational here.  A bandit holds
one construction-time generator shared by facade, learning policy and neighbourhood policy, plus - for the
linear policies only - per-arm-model references that `_fit_arm`'s deepcopy turns into private copies.
"""
import copy

import numpy as np


def _is_rng(o):
    return type(o).__name__ == "_NumpyRNG" or (hasattr(o, "rng") and isinstance(getattr(o, "rng", None),
                                                                                 np.random.Generator)
                                                and hasattr(o, "seed") and hasattr(o, "randint"))


def _leaf(o):
    if o is None or isinstance(o, (str, bytes, int, float, bool, complex, np.ndarray, np.generic, type)):
        return True
    mod = type(o).__module__ or ""
    if mod.startswith(("sklearn", "numpy", "scipy", "pandas", "joblib")):
        return True
    if callable(o) and not hasattr(o, "__dict__"):
        return True
    return False


def find_rngs(root):
    """-> list of (path, wrapper) for every generator wrapper reachable from root, in walk order."""
    out = []
    seen = set()

    def walk(o, path):
        if _leaf(o):
            return
        if _is_rng(o):
            out.append((path, o))
            return
        if id(o) in seen:
            return
        seen.add(id(o))
        if isinstance(o, dict):
            for i, (k, v) in enumerate(o.items()):
                walk(v, path + ("[%r]" % (k,),))
        elif isinstance(o, (list, tuple)):
            for i, v in enumerate(o):
                walk(v, path + ("[%d]" % i,))
        elif hasattr(o, "__dict__"):
            for k, v in vars(o).items():
                walk(v, path + (k,))

    walk(root, ())
    return out


def shape(root):
    """(sorted path tuple, alias partition as a sorted tuple of sorted path tuples)."""
    found = find_rngs(root)
    paths = tuple(sorted(p for p, _ in found))
    groups = {}
    for p, r in found:
        groups.setdefault(id(r), []).append(p)
    part = tuple(sorted(tuple(sorted(g)) for g in groups.values()))
    return paths, part


def get_state(wrapper):
    return copy.deepcopy(wrapper.rng.bit_generator.state)


def set_state(wrapper, state):
    wrapper.rng.bit_generator.state = copy.deepcopy(state)


def clone_rng(wrapper):
    """Detached copy of a generator wrapper at its current position."""
    return copy.deepcopy(wrapper)


def _is_model_path(path):
    return any(s == "arm_to_model" for s in path)


def align(src, dst, salt=0, normalise=True):
    """Give dst the random-stream positions of src.  Returns the mode used.

    pathwise   : same path set and same alias partition - states copied path by path, nothing else touched.
    normalised : alias partitions differ (linear arm models whose private generator copies depend on which
                 arms were ever trained) - on BOTH bandits every arm-model generator is replaced by a private
                 generator seeded from (salt, index); all other paths are copied path-wise.
    """
    fs, fd = find_rngs(src), find_rngs(dst)
    ps, pd_ = dict(fs), dict(fd)
    if set(ps) != set(pd_):
        raise RuntimeError("stream shapes differ: %r vs %r" % (sorted(ps), sorted(pd_)))
    if shape(src)[1] == shape(dst)[1]:
        done = set()
        for p, w in fd:
            if id(w) in done:
                continue
            done.add(id(w))
            set_state(w, get_state(ps[p]))
        return "pathwise"
    if not normalise:
        # alias structures differ and the caller wants no leniency: every generator of dst takes the position of
        # the generator found under the same path in src (an aliased group takes the first path's position)
        done = set()
        for p, w in fd:
            if id(w) in done:
                continue
            done.add(id(w))
            set_state(w, get_state(ps[p]))
        return "pathwise_alias_mismatch"
    from mabwiser.utils import create_rng
    model_paths = sorted(p for p in ps if _is_model_path(p))
    for bandit in (src, dst):
        for i, p in enumerate(model_paths):
            _assign(bandit, p, create_rng(1000003 * (salt + 1) + i))
    fs, fd = dict(find_rngs(src)), find_rngs(dst)
    done = set()
    for p, w in fd:
        if _is_model_path(p) or id(w) in done:
            continue
        done.add(id(w))
        set_state(w, get_state(fs[p]))
    return "normalised"


def _assign(root, path, value):
    o = root
    for step in path[:-1]:
        o = _step(o, step)
    last = path[-1]
    if last.startswith("["):
        key = _key(o, last)
        o[key] = value
    else:
        setattr(o, last, value)


def _key(o, step):
    if isinstance(o, dict):
        for k in o:
            if "[%r]" % (k,) == step:
                return k
        raise KeyError(step)
    return int(step[1:-1])


def _step(o, step):
    if step.startswith("["):
        return o[_key(o, step)]
    return getattr(o, step)


def positions(root):
    """Digest of all stream positions (for 'did this call consume randomness' bookkeeping)."""
    return [(p, repr(get_state(w)["state"])) for p, w in find_rngs(root)]
