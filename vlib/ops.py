"""Plans are data: a bandit configuration and a list of operations with literal arguments.

config = {"arms": [...], "lp": [name, {params}], "np": [name, {params}] | None,
          "seed": int, "n_jobs": int, "backend": str | None}
op     = [name, arg, ...]   (JSON-serialisable; see apply_op)

Nothing in here draws random numbers or looks at the clock.
"""
import math
from copy import deepcopy

import numpy as np

from vlib import binarizers

LINEAR = ("LinGreedy", "LinTS", "LinUCB")
CONTEXT_FREE = ("EpsilonGreedy", "UCB1", "Softmax", "Popularity", "ThompsonSampling", "Random")
NEIGHBORHOODS = ("Radius", "KNearest", "LSHNearest", "Clusters", "TreeBandit")
TREE_COMPATIBLE = ("EpsilonGreedy", "UCB1", "ThompsonSampling")


def is_contextual(config) -> bool:
    return config.get("np") is not None or config["lp"][0] in LINEAR


def make_lp(desc):
    from mabwiser.mab import LearningPolicy
    name, params = desc
    params = dict(params or {})
    if name == "ThompsonSampling" and params.get("binarizer") is not None:
        params["binarizer"] = binarizers.make(params["binarizer"])
    cls = getattr(LearningPolicy, name)
    return cls(**params)


def make_np(desc):
    from mabwiser.mab import NeighborhoodPolicy
    if desc is None:
        return None
    name, params = desc
    params = deepcopy(dict(params or {}))
    cls = getattr(NeighborhoodPolicy, name)
    if name == "TreeBandit" and params.get("_default"):
        return cls()
    params.pop("_default", None)
    return cls(**params)


def build(config):
    from mabwiser.mab import MAB
    kwargs = {}
    if "seed" in config:
        kwargs["seed"] = config["seed"]
    if config.get("n_jobs", 1) != 1:
        kwargs["n_jobs"] = config["n_jobs"]
    if config.get("backend") is not None:
        kwargs["backend"] = config["backend"]
    return MAB(list(config["arms"]), make_lp(config["lp"]), make_np(config.get("np")), **kwargs)


# ----------------------------------------------------------------------------------------------
# canonical outputs

def py(x):
    """numpy scalar -> python scalar."""
    if isinstance(x, np.generic):
        return x.item()
    return x


def canon_expectations(e):
    return [[py(k), py(v)] for k, v in e.items()]


def canon(kind, out):
    if kind == "predict":
        if isinstance(out, list):
            return ["L", [py(a) for a in out]]
        return ["S", py(out)]
    if kind == "predict_expectations":
        if isinstance(out, list):
            return ["L", [canon_expectations(e) for e in out]]
        return ["S", canon_expectations(out)]
    if kind == "cold_arms":
        return [py(a) for a in out]
    return None


class Exc(list):
    """Canonical form of a raised exception: ["EXC", type name, message]."""

    def __init__(self, e):
        super().__init__(["EXC", type(e).__name__, str(e)[:200]])


def is_exc(o):
    return isinstance(o, list) and len(o) == 3 and o[0] == "EXC"


def ctx(c):
    if c is None:
        return None
    return c


def _ctx(c):
    """contexts argument: {"empty": d} stands for an array with zero rows and d columns."""
    if isinstance(c, dict) and "empty" in c:
        return np.zeros((0, c["empty"]))
    if isinstance(c, dict) and "array" in c:
        # {"array": rows, "dtype": name}: the rows as an ndarray of that dtype (the values are representable in it)
        return np.asarray(c["array"], dtype=c["dtype"])
    return c


def apply_op(mab, op, catch=True):
    """Apply one op through the public API; return the canonical output (None for commands)."""
    name = op[0]
    if name in ("fit_tiled", "partial_fit_tiled"):
        # [name, decisions, rewards, contexts, times]: the batch repeated `times` times (thousands of rows)
        t = op[4]
        step = op[5] if len(op) > 5 else 0      # optional drift: repetition k is shifted by k*step (distinct rows)
        op = [name[:-6], list(op[1]) * t, list(op[2]) * t,
              ([[v + step * k for v in r] for k in range(t) for r in op[3]] if op[3] is not None else None)]
        name = op[0]
    if name in ("fit", "partial_fit") and isinstance(op[2], dict):
        # rewards {"array": values, "dtype": name}: an ndarray of that dtype
        op = [op[0], op[1], np.asarray(op[2]["array"], dtype=op[2]["dtype"]), op[3]]
    if name in ("fit", "partial_fit") and isinstance(op[3], dict):
        op = [op[0], np.asarray(op[1]), op[2] if isinstance(op[2], np.ndarray) else np.asarray(op[2], dtype=float),
              _ctx(op[3])]
    try:
        if name == "fit":
            mab.fit(op[1], op[2], op[3]) if op[3] is not None else mab.fit(op[1], op[2])
            return None
        if name == "partial_fit":
            mab.partial_fit(op[1], op[2], op[3]) if op[3] is not None else mab.partial_fit(op[1], op[2])
            return None
        if name == "predict":
            return canon("predict", mab.predict(_ctx(op[1])) if op[1] is not None else mab.predict())
        if name == "predict_expectations":
            return canon("predict_expectations",
                         mab.predict_expectations(_ctx(op[1])) if op[1] is not None else mab.predict_expectations())
        if name in ("predict_series", "predict_expectations_series"):
            # [name, values]: the query given as a pandas Series (one feature: one row per value; else one row)
            import pandas as pd
            kind = name[:-7]
            return canon(kind, getattr(mab, kind)(pd.Series(list(op[1]), index=range(300, 300 + len(op[1])))))
        if name in ("predict_tiled", "predict_expectations_tiled"):
            # [name, rows, times]: the rows repeated `times` times (large batches without large plans)
            big = [list(r) for _ in range(op[2]) for r in op[1]]
            kind = name[:-6]
            return canon(kind, getattr(mab, kind)(big))
        if name == "add_arm":
            b = binarizers.make(op[2]) if len(op) > 2 and op[2] is not None else None
            mab.add_arm(op[1], b) if b is not None else mab.add_arm(op[1])
            return None
        if name == "remove_arm":
            mab.remove_arm(op[1])
            return None
        if name == "warm_start":
            mab.warm_start({a: list(v) for a, v in op[1]}, op[2])
            return None
        if name == "cold_arms":
            return canon("cold_arms", mab.cold_arms)
        if name == "arms":
            return [py(a) for a in mab.arms]
        if name == "policies":
            # the configuration as the public properties report it (hyper-parameters are state too)
            return [repr(mab.learning_policy), repr(mab.neighborhood_policy)]
    except Exception as e:  # noqa: the library's reaction is an output like any other
        if not catch:
            raise
        return Exc(e)
    raise ValueError("unknown op %r" % (name,))


def run_ops(mab, ops, catch=True):
    return [apply_op(mab, op, catch) for op in ops]


QUERY_OPS = ("predict", "predict_expectations", "cold_arms", "arms", "policies", "predict_series",
             "predict_expectations_series", "predict_tiled", "predict_expectations_tiled")
TRAIN_OPS = ("fit", "partial_fit")


# ----------------------------------------------------------------------------------------------
# comparison

def float_eq(a, b, rtol=0.0, atol=0.0):
    if isinstance(a, bool) or isinstance(b, bool):
        return a == b
    fa, fb = float(a), float(b)
    if math.isnan(fa) or math.isnan(fb):
        return math.isnan(fa) and math.isnan(fb)
    if fa == fb:
        return True
    if rtol == 0.0 and atol == 0.0:
        return False
    if math.isinf(fa) or math.isinf(fb):
        return False
    return abs(fa - fb) <= atol + rtol * max(1.0, abs(fa), abs(fb))


def same(a, b, rtol=0.0, atol=0.0):
    """NaN-aware structural equality of canonical outputs (lists, scalars, strings)."""
    if isinstance(a, (list, tuple)) and isinstance(b, (list, tuple)):
        return len(a) == len(b) and all(same(x, y, rtol, atol) for x, y in zip(a, b))
    if isinstance(a, (list, tuple)) or isinstance(b, (list, tuple)):
        return False
    if a is None or b is None:
        return a is None and b is None
    if isinstance(a, str) or isinstance(b, str):
        return isinstance(a, str) and isinstance(b, str) and a == b
    if isinstance(a, (int, float)) and isinstance(b, (int, float)):
        return float_eq(a, b, rtol, atol)
    return a == b


def same_exc_class(a, b):
    return is_exc(a) and is_exc(b) and a[1] == b[1]


def outputs_equal(a, b, rtol=0.0, atol=0.0):
    """Outputs of the same op on two twins: equal values, or the same exception type."""
    if is_exc(a) or is_exc(b):
        return same_exc_class(a, b)
    return same(a, b, rtol, atol)


def first_diff(outs_a, outs_b, rtol=0.0, atol=0.0):
    for i, (a, b) in enumerate(zip(outs_a, outs_b)):
        if not outputs_equal(a, b, rtol, atol):
            return i
    if len(outs_a) != len(outs_b):
        return min(len(outs_a), len(outs_b))
    return None


def hexfloat(x):
    if isinstance(x, float):
        return x.hex()
    if isinstance(x, (list, tuple)):
        return [hexfloat(v) for v in x]
    return x


def short(o, n=300):
    s = repr(o)
    return s if len(s) <= n else s[:n] + "..."
