"""Reference models, written from the documentation only (no mabwiser import).

Slow and obviously correct: every statistic is recomputed from the raw per-arm reward lists.
"""
import math

import numpy as np

EPS = float(np.finfo(float).eps)


class ContextFreeRef:
    """Per-arm reward lists since max(last fit, last add of that label); N = rows since the last fit."""

    def __init__(self, arms):
        self.arms = list(arms)
        self.rewards = {a: [] for a in self.arms}
        self.n_total = 0
        self.fitted = False

    def fit(self, decisions, rewards):
        self.rewards = {a: [] for a in self.arms}
        self.n_total = 0
        self.fitted = True
        self._add(decisions, rewards)

    def partial_fit(self, decisions, rewards):
        if not self.fitted:
            return self.fit(decisions, rewards)
        self._add(decisions, rewards)

    def _add(self, decisions, rewards):
        self.n_total += len(decisions)
        for d, r in zip(decisions, rewards):
            for a in self.arms:
                if a == d:
                    self.rewards[a].append(r)

    def add_arm(self, arm):
        self.arms.append(arm)
        self.rewards[arm] = []

    def remove_arm(self, arm):
        self.arms.remove(arm)
        del self.rewards[arm]

    # statistics -----------------------------------------------------------------------------
    def count(self, a):
        return len(self.rewards[a])

    def total(self, a):
        return math.fsum(self.rewards[a])

    def mean(self, a):
        n = self.count(a)
        return self.total(a) / n if n else 0.0

    def greedy(self):
        return {a: self.mean(a) for a in self.arms}

    def ucb1(self, alpha):
        out = {}
        for a in self.arms:
            n = self.count(a)
            out[a] = self.mean(a) + alpha * math.sqrt(2.0 * math.log(self.n_total) / n) if n else 0.0
        return out

    def softmax(self, tau):
        means = [self.mean(a) for a in self.arms]
        mx = max(means)
        ex = [math.exp((m - mx) / tau) for m in means]
        tot = math.fsum(ex)
        return {a: e / tot for a, e in zip(self.arms, ex)}

    def popularity(self):
        means = [self.mean(a) for a in self.arms]
        tot = math.fsum(means)
        if tot == 0:
            return None          # 0/0: the documentation does not say; only finiteness is asserted
        return {a: m / tot for a, m in zip(self.arms, means)}

    def thompson(self, convert=None):
        out = {}
        for a in self.arms:
            rs = self.rewards[a] if convert is None else [convert(a, r) for r in self.rewards[a]]
            s = sum(1 for r in rs if r == 1)
            out[a] = (1 + s, 1 + len(rs) - s)
        return out

    def max_abs(self):
        m = 0.0
        for rs in self.rewards.values():
            for r in rs:
                m = max(m, abs(float(r)))
        return m


# documented samplers, applied to reference parameters on a given generator wrapper ---------------

def sample_greedy(rng, arms, expectation, epsilon, size):
    """size None -> one dict; size m -> list of m dicts.  Mirrors the documented epsilon-greedy draw."""
    if size is None:
        if rng.rand() < epsilon:
            return {a: float(rng.rand()) for a in arms}
        return dict(expectation)
    prob = rng.rand(size)
    rv = rng.rand((size, len(arms)))
    return [dict(zip(arms, map(float, rv[i]))) if prob[i] < epsilon else dict(expectation) for i in range(size)]


def sample_dirichlet(rng, arms, p, size):
    alpha = [p[a] + EPS for a in arms]
    vals = rng.dirichlet(alpha, 1 if size is None else size)
    out = [dict(zip(arms, map(float, row))) for row in vals]
    return out[0] if size is None or size == 1 else out


def sample_beta(rng, arms, ab, size):
    n = 1 if size is None else size
    cols = {a: rng.beta(ab[a][0], ab[a][1], n) for a in arms}
    out = [{a: float(cols[a][i]) for a in arms} for i in range(n)]
    return out[0] if n == 1 else out


def sample_uniform(rng, arms, size):
    n = 1 if size is None else size
    rv = rng.rand((n, len(arms)))
    out = [dict(zip(arms, map(float, row))) for row in rv]
    return out[0] if n == 1 else out


# moments of the documented output distributions (for the arbitration test) -----------------------

def moments_greedy(expectation, epsilon):
    out = {}
    for a, e in expectation.items():
        mu = epsilon * 0.5 + (1 - epsilon) * e
        ex2 = epsilon / 3.0 + (1 - epsilon) * e * e
        out[a] = (mu, max(ex2 - mu * mu, 0.0))
    return out


def moments_dirichlet(p):
    alpha = {a: v + EPS for a, v in p.items()}
    a0 = math.fsum(alpha.values())
    return {a: (v / a0, v * (a0 - v) / (a0 * a0 * (a0 + 1))) for a, v in alpha.items()}


def moments_beta(ab):
    return {a: (s / (s + f), s * f / ((s + f) ** 2 * (s + f + 1))) for a, (s, f) in ab.items()}


def moments_uniform(arms):
    return {a: (0.5, 1.0 / 12.0) for a in arms}


# ridge ------------------------------------------------------------------------------------------

def ridge(X, y, lam):
    """beta, A for the ridge regression of y on X with penalty lam (X: n x d)."""
    X = np.asarray(X, dtype=float)
    y = np.asarray(y, dtype=float)
    d = X.shape[1]
    A = X.T @ X + lam * np.eye(d)
    beta = np.linalg.solve(A, X.T @ y)
    return beta, A


def standardise(X):
    """Per-feature mean and population std (std <= 1e-6 -> 1), as documented for scale=True."""
    X = np.asarray(X, dtype=float)
    mu = X.mean(axis=0)
    sd = X.std(axis=0)
    sd = np.where(sd <= 1e-6, 1.0, sd)
    return mu, sd
