"""Hypothesis strategies: arms, policies, data, and model-based call histories.

Sound first: every op a history contains is valid by construction for the bandit's state at that point
(a lightweight model of the bandit is carried along), so nothing is filtered with assume().
All randomness comes from Hypothesis.
"""
from hypothesis import strategies as st

from vlib import binarizers
from vlib.ops import LINEAR, TREE_COMPATIBLE

EXACT_METRICS = ["cityblock", "chebyshev", "sqeuclidean", "euclidean"]
# for differential checks that need no exact distance oracle: metrics with data-dependent parameters (seuclidean,
# mahalanobis estimate a variance / covariance from the rows they are given), ratios and boolean metrics included
# metrics that never raise on small data (undefined distances come out as NaN instead)
SAFE_METRICS = EXACT_METRICS + ["cosine", "correlation", "canberra", "braycurtis", "minkowski", "hamming", "cosine"]
MANY_METRICS = EXACT_METRICS + ["seuclidean", "mahalanobis", "cosine", "correlation", "canberra", "braycurtis",
                                "minkowski", "hamming", "seuclidean", "mahalanobis"]

INT_POOL = [1, 2, 3, 0, -1, 7, 10, 4]
# (names that spell numbers, non-finite ones included, are names all the same)
STR_POOL = ["a", "b", "ab", "abc", "A", "1", "arm 2", "b ", "z", "nan", "inf", "1e5"]
FLOAT_POOL = [0.5, 1.5, 2.0, -1.0, 2.5, 1.0, 3.25, 0.0]
MIX_POOL = [1, 2.5, 3, 0.5, 2, -1.5, 4, 0]
# float labels that differ in the last digits only (distinct arms all the same)
FLOAT_CLOSE_POOL = [2499.99, 2500.0, 2500.01, 0.3, 0.1 + 0.2, 1e-9, 2e-9, 1.0000001]
# identifiers beyond 2**53 (snowflake-style ids): neighbours are one and the same double
BIGINT_POOL = [2 ** 60 + 1, 2 ** 60 + 2, 2 ** 60 + 3, 2 ** 53 + 1, 2 ** 53 + 2, 2 ** 62 + 5, 2 ** 60 + 4]
POOLS = {"bigint": BIGINT_POOL, "int": INT_POOL, "str": STR_POOL, "float": FLOAT_POOL, "mix": MIX_POOL}


@st.composite
def perm_st(draw, seq):
    """A permutation drawn by repeated index draws (st.permutations rejects every byte string under
    hypothesis' fuzz_one_input, which the coverage-guided campaigns rely on)."""
    items = list(seq)
    out = []
    while items:
        out.append(items.pop(draw(st.integers(0, len(items) - 1))))
    return out


@st.composite
def arms_st(draw, kinds=("int", "str", "float"), min_size=1, max_size=5, many_ok=False):
    kind = draw(st.sampled_from(list(kinds)))
    if many_ok and draw(st.integers(0, 29)) == 0:
        # a catalogue-sized arm list (more arms than numpy's small-count code paths cover, e.g. np.choose's 64)
        # ... now and then hundreds of arms (a product catalogue): whatever switches to another code path by arm count
        n = draw(st.sampled_from([33, 64, 65, 70, 33, 64, 65, 70, 520, 1030]))
        if kind == "str":
            return kind, ["item%d" % i for i in range(n)]
        if kind == "float":
            return kind, [i + 0.5 for i in range(n)]
        return ("int" if kind == "mix" else kind), list(range(100, 100 + n))
    pool = POOLS[kind]
    if kind == "float" and draw(st.integers(0, 4)) == 0:
        pool = FLOAT_CLOSE_POOL
    n = draw(st.integers(min_size, min(max_size, len(pool))))
    if max_size >= 4 and draw(st.integers(0, 11)) == 0:
        n = min(len(pool), max_size + 3)            # now and then more arms than usual
    arms = draw(perm_st(pool))[:n]
    return kind, list(arms)


# ------------------------------------------------------------------------------------------------
# rewards

def reward_st(family):
    if family == "E":      # exactly summable: multiples of 1/8 in [-50, 50]
        return st.integers(-400, 400).map(lambda k: k / 8.0)
    if family == "Eint":
        return st.integers(-50, 50)
    if family == "Epos":   # non-negative, exactly summable
        return st.integers(0, 400).map(lambda k: k / 8.0)
    if family == "M":      # exactly summable, in the thousands: multiples of 1/2 in [-2000, 2000]
        return st.integers(-4000, 4000).map(lambda k: k / 2.0)
    if family == "F":
        return st.floats(-1e6, 1e6, allow_nan=False, allow_infinity=False, width=64)
    if family == "Fpos":
        return st.floats(0, 1e6, allow_nan=False, allow_infinity=False, width=64)
    if family == "D":      # one-decimal rewards: means that agree up to the last bits without being equal
        return st.integers(0, 10).map(lambda k: k / 10.0)
    if family == "T":      # tiny integer range: equal means and exact ties are common
        return st.integers(0, 2)
    if family == "S":      # small range around the binarizer thresholds
        return st.integers(-4, 12).map(lambda k: k / 2.0)
    if family == "Sint":
        return st.integers(-2, 6)
    if family == "Bool":   # Python bools (numpy bool arrays after conversion)
        return st.booleans()
    if family == "B":
        return st.integers(0, 1)
    if family == "Bf":
        return st.sampled_from([0.0, 1.0])
    raise ValueError(family)


def reward_family_for(lp_desc, draw, exact_only=False, allow_float_binary=True):
    name, params = lp_desc
    if name == "ThompsonSampling":
        if params.get("binarizer") is not None:
            # mostly the small range around the thresholds, where the conversion depends on the arm
            return draw(st.sampled_from(["Sint", "S", "Sint", "Eint", "E"]))
        return draw(st.sampled_from(["B", "Bf"])) if allow_float_binary else "B"
    if name == "Popularity":
        return "Epos" if exact_only else draw(st.sampled_from(["Epos", "Epos", "Fpos"]))
    if name == "Softmax" and draw(st.integers(0, 2)) == 0:
        return "M"
    if exact_only:
        return draw(st.sampled_from(["E", "Eint"]))
    return draw(st.sampled_from(["E", "E", "Eint", "F"]))


# ------------------------------------------------------------------------------------------------
# policies

def binarizer_st(arms):
    if len(arms) > 100:
        arms = list(arms)[:6]       # hundreds of arms: thresholds for a few, the default for the rest (few draws)
    thr = st.fixed_dictionaries({
        "kind": st.just("threshold"),
        "op": st.sampled_from(["ge", "le"]),
        "table": st.lists(st.sampled_from([1.5, 2, 3, 0.5, 5, -1, 10]), min_size=len(arms),
                          max_size=len(arms)).map(lambda ts: [[a, t] for a, t in zip(arms, ts)]),
        "default": st.sampled_from([2, 0.5, 3]),
    })
    strkey = st.fixed_dictionaries({
        "kind": st.just("strkey"),
        "table": st.lists(st.sampled_from([1.5, 2, 3, 0.5, 5, -1, 10]), min_size=len(arms),
                          max_size=len(arms)).map(lambda ts: [[binarizers.key_of(a), t] for a, t in zip(arms, ts)]),
        "default": st.sampled_from([2, 0.5, 3]),
    })
    return st.one_of(thr, thr, strkey, st.just({"kind": "parity"}), st.just({"kind": "flip"}))


@st.composite
def lp_st(draw, names, arms=None, deterministic=False, lam_min=0.01, with_binarizer=False,
          scale_ok=False, boundary=True):
    name = draw(st.sampled_from(list(names)))
    # boundary values the documentation names, or (one time in three) any value of the documented range
    anyval = draw(st.integers(0, 2)) == 0

    def q(x):
        return round(x, 4)
    if name == "EpsilonGreedy":
        if deterministic:
            return [name, {"epsilon": draw(st.sampled_from([0, 0.0]))}]
        if anyval:
            return [name, {"epsilon": q(draw(st.floats(0, 1, allow_nan=False)))}]
        return [name, {"epsilon": draw(st.sampled_from([0, 0.25, 1, 0.5, 0.1, 1.0]))}]
    if name == "UCB1":
        if anyval:
            return [name, {"alpha": q(draw(st.floats(0, 5, allow_nan=False)))}]
        return [name, {"alpha": draw(st.sampled_from([0, 1, 0.5, 2.25, 0.1]))}]
    if name == "Softmax":
        if draw(st.integers(0, 5)) == 0:
            # temperatures far from 1 (the documented range is tau > 0): with rewards in the thousands the exponents
            # (mean - max) / tau are moderate while mean - max alone is beyond what exp() can represent
            return [name, {"tau": draw(st.sampled_from([40, 100, 400, 1000.0, 1e6, 0.01]))}]
        if anyval:
            return [name, {"tau": q(draw(st.floats(0.05, 10, allow_nan=False)))}]
        return [name, {"tau": draw(st.sampled_from([1, 0.5, 0.1, 5, 2.5]))}]
    if name in ("Popularity", "Random"):
        return [name, {}]
    if name == "ThompsonSampling":
        if with_binarizer and arms is not None and draw(st.booleans()):
            return [name, {"binarizer": draw(binarizer_st(arms))}]
        return [name, {}]
    lam = draw(st.sampled_from([1.0, 1, 0.5, 2, 10, 0.25, 100] if lam_min <= 0.25 else [1.0, 1, 2, 10]))
    if anyval:
        lam = q(draw(st.floats(max(lam_min, 0.05), 100, allow_nan=False)))
    scale = draw(st.booleans()) if scale_ok else False
    if name == "LinGreedy":
        eps = 0 if deterministic else draw(st.sampled_from([0, 0.25, 1, 0.5]))
        return [name, {"epsilon": eps, "l2_lambda": lam, "scale": scale}]
    if name == "LinUCB":
        al = q(draw(st.floats(0, 5, allow_nan=False))) if anyval else draw(st.sampled_from([0, 1, 0.5, 2.25, 1.0]))
        return [name, {"alpha": al, "l2_lambda": lam, "scale": scale}]
    if name == "LinTS":
        al = q(draw(st.floats(0.01, 3, allow_nan=False))) if anyval else draw(st.sampled_from([1, 0.5, 0.1, 2.0]))
        return [name, {"alpha": al, "l2_lambda": lam, "scale": scale}]
    raise ValueError(name)


@st.composite
def np_st(draw, names, arms, prob_ok=True, defaults_ok=False, metrics=None):
    name = draw(st.sampled_from(list(names)))
    if name is None:
        return None
    if name == "Radius":
        p = {"radius": draw(st.sampled_from([1, 2, 1.5, 3, 0.5, 4, 2.0, 9, 0.25, 0.3])),
             "metric": draw(st.sampled_from(metrics or EXACT_METRICS))}
        if prob_ok and draw(st.integers(0, 3)) == 0:
            p["no_nhood_prob_of_arm"] = draw(prob_list_st(len(arms)))
        if defaults_ok and draw(st.integers(0, 4)) == 0:
            p = {}
        return [name, p]
    if name == "KNearest":
        p = {"k": draw(st.integers(1, 4)), "metric": draw(st.sampled_from(metrics or EXACT_METRICS))}
        if defaults_ok and draw(st.integers(0, 4)) == 0:
            p = {}
        return [name, p]
    if name == "LSHNearest":
        p = {"n_dimensions": draw(st.sampled_from([1, 2, 3, 4, 5, 1, 2, 3, 4, 5, 1, 2, 3, 4, 5, 8, 33, 54, 60])),
             "n_tables": draw(st.integers(1, 3))}
        if prob_ok and draw(st.integers(0, 3)) == 0:
            p["no_nhood_prob_of_arm"] = draw(prob_list_st(len(arms)))
        if defaults_ok and draw(st.integers(0, 4)) == 0:
            p = {}
        return [name, p]
    if name == "Clusters":
        p = {"n_clusters": draw(st.integers(2, 3)), "is_minibatch": draw(st.booleans())}
        if defaults_ok and draw(st.integers(0, 4)) == 0:
            p = {}
        return [name, p]
    if name == "TreeBandit":
        tp = draw(st.sampled_from([{}, {"max_depth": 2}, {"min_samples_leaf": 2}, {"max_depth": 1},
                                   {"splitter": "random"}, {"max_features": 1}, {"max_leaf_nodes": 3},
                                   {"random_state": None, "max_features": 1}, {"random_state": 5, "splitter": "random"},
                                   # other split criteria: the value scikit-learn keeps in a node is then not the mean
                                   {"criterion": "absolute_error", "max_depth": 1},
                                   {"criterion": "absolute_error", "min_samples_leaf": 3},
                                   {"criterion": "friedman_mse", "max_leaf_nodes": 2},
                                   {"min_impurity_decrease": 0.5}, {"ccp_alpha": 0.1}, {"min_samples_split": 4}]))
        if defaults_ok and draw(st.integers(0, 2)) == 0:
            return [name, {"_default": True}]
        return [name, {"tree_parameters": dict(tp)}]
    raise ValueError(name)


@st.composite
def prob_list_st(draw, n):
    """Probabilities in multiples of 1/8 (1/1024 for long lists) summing to exactly 1.0, zeros allowed."""
    if n == 1:
        return [1.0]
    if n <= 9 and draw(st.integers(0, 3)) == 0:
        # probabilities as users type them: rounded to six decimals, summing to 1 only up to ~1e-6 (the policy
        # validation accepts sums within 1e-5 of 1; with more entries the rounding errors would add up beyond that)
        w = draw(st.lists(st.integers(1, 9), min_size=n, max_size=n))
        return [round(x / float(sum(w)), 6) for x in w]
    base = 8 if n <= 8 else 1024
    if n > 100:
        # hundreds of arms: a few arms share the probability mass, all others get zero (few draws)
        k = 5
        cuts = sorted(draw(st.lists(st.integers(0, base), min_size=k - 1, max_size=k - 1)))
        parts = [b - a for a, b in zip([0] + cuts, cuts + [base])]
        where = draw(st.lists(st.integers(0, n - 1), min_size=k, max_size=k, unique=True))
        out = [0.0] * n
        for w, q in zip(where, parts):
            out[w] = q / float(base)
        return out
    cuts = sorted(draw(st.lists(st.integers(0, base), min_size=n - 1, max_size=n - 1)))
    parts = [b - a for a, b in zip([0] + cuts, cuts + [base])]
    return [p / float(base) for p in parts]


ALL_LP = ["EpsilonGreedy", "UCB1", "Softmax", "Popularity", "ThompsonSampling", "Random",
          "LinGreedy", "LinTS", "LinUCB"]
ALL_NP = [None, "Radius", "KNearest", "LSHNearest", "Clusters", "TreeBandit"]


@st.composite
def config_st(draw, lps=ALL_LP, nps=ALL_NP, arm_kinds=("int", "str", "float"), min_arms=1, max_arms=4,
              deterministic=False, with_binarizer=False, scale_ok=False, prob_ok=True, defaults_ok=False,
              n_jobs_choices=(1,), seeds=None, lam_min=0.01, tree_parallel_ok=False, metrics=None, many_arms_ok=False):
    kind, arms = draw(arms_st(arm_kinds, min_arms, max_arms, many_ok=many_arms_ok))
    npn = draw(st.sampled_from(list(nps)))
    lp_names = [n for n in lps if not (npn == "TreeBandit" and n not in TREE_COMPATIBLE)]
    lp = draw(lp_st(lp_names, arms, deterministic, lam_min, with_binarizer, scale_ok))
    npd = draw(np_st([npn], arms, prob_ok, defaults_ok, metrics)) if npn is not None else None
    seed = draw(seeds if seeds is not None else st.integers(0, 2 ** 20))
    nj = draw(st.sampled_from(list(n_jobs_choices)))
    if npn == "TreeBandit" and (lp[0] == "ThompsonSampling" or lp[1].get("epsilon", 0) > 0) and not tree_parallel_ok:
        # TreeBandit's leaf policies draw from the bandit's shared generator inside the worker tasks, so with
        # n_jobs > 1 the outputs depend on thread scheduling (recorded under C05, finding D7); every other check
        # keeps such bandits single-threaded so that its own oracle stays deterministic.
        nj = 1
    cfg = {"arms": arms, "lp": lp, "np": npd, "seed": seed, "n_jobs": nj,
           "backend": ("threading" if nj != 1 else None), "arm_kind": kind}
    return cfg


# ------------------------------------------------------------------------------------------------
# data

def grid_value_st(grid):
    if grid == "int":
        return st.integers(-3, 3)
    if grid == "half":
        return st.integers(-6, 6).map(lambda k: k / 2.0)
    if grid == "mixed":     # halves, written as Python ints where integral: rows of ints next to rows with decimals
        return st.integers(-6, 6).map(lambda k: k // 2 if k % 2 == 0 else k / 2.0)
    if grid == "small":
        return st.integers(-1, 1)
    if grid == "nonneg":    # non-negative integers, some large enough that a few squared values exceed an int8
        return st.sampled_from([0, 1, 2, 3, 4, 5, 6, 9, 11])
    if grid == "f32edge":   # integers just above 2**24: not all representable in single precision (trees use float32)
        return st.integers(-6, 6).map(lambda k: 16777216 + 3 * k)
    if grid == "real":      # real-valued contexts (two decimals); only for checks that compare with a tolerance
        return st.integers(-300, 300).map(lambda k: k / 100.0)
    raise ValueError(grid)


def contexts_st(n, d, grid="int"):
    return st.lists(st.lists(grid_value_st(grid), min_size=d, max_size=d), min_size=n, max_size=n)


class History:
    """Model-based generator of valid call histories for one bandit configuration."""

    def __init__(self, draw, config, reward_family=None, grid="int", d=None, max_rows=10, min_rows=1,
                 arm_changes=True, exact_only=False, max_d=3, query_rows=(1, 2, 3, 5), series_queries=False,
                 refit_new_d=False, query_grid=None):
        self.draw = draw
        self.cfg = config
        self.arms = list(config["arms"])
        self.kind = config.get("arm_kind", "int")
        self.lp = config["lp"]
        self.np = config.get("np")
        self.contextual = self.np is not None or self.lp[0] in LINEAR
        self.fitted = False
        self.rows = 0
        self.d = d if d is not None else draw(st.integers(1, max_d))
        self.grid = grid
        self.family = reward_family or reward_family_for(self.lp, draw, exact_only)
        self.max_rows = max_rows
        self.min_rows = max(min_rows, self._min_fit_rows())
        self.removed = []
        self.arm_changes = arm_changes
        self.query_rows = query_rows
        self.ops = []
        self.has_prob_list = bool(self.np and self.np[1].get("no_nhood_prob_of_arm"))
        self.series_queries = series_queries
        self.refit_new_d = refit_new_d
        self.query_grid = query_grid or grid      # queries may come from a finer grid than the training contexts

    def _min_fit_rows(self):
        if self.np is None:
            return 1
        if self.np[0] == "KNearest":
            return self.np[1].get("k", 1)
        if self.np[0] == "Clusters":
            return self.np[1].get("n_clusters", 2)
        return 1

    # -- data
    def batch(self, n=None, omit=None, min_rows=1):
        draw = self.draw
        if n is None:
            n = draw(st.integers(min_rows, max(min_rows, self.max_rows)))
            if draw(st.integers(0, 14)) == 0:
                n = n * 4 + 5                       # now and then a batch much larger than usual (> 16 rows)
        arms = self.arms
        if omit is None:
            omit = draw(st.booleans())
        if len(arms) > 40 and draw(st.integers(0, 3)):
            # catalogue-sized arm lists: most batches are about a handful of arms, so that arms repeat within a batch
            keep = draw(st.lists(st.sampled_from(arms), min_size=1, max_size=6, unique=True))
        elif omit and len(arms) > 1:
            keep = draw(st.lists(st.sampled_from(arms), min_size=1, max_size=len(arms) - 1, unique=True))
        else:
            keep = arms
        decisions = draw(st.lists(st.sampled_from(keep), min_size=n, max_size=n))
        rewards = draw(st.lists(reward_st(self.family), min_size=n, max_size=n))
        contexts = draw(contexts_st(n, self.d, self.grid)) if self.contextual else None
        return decisions, rewards, contexts

    def queries(self, m=None):
        draw = self.draw
        if m is None:
            m = draw(st.sampled_from(list(self.query_rows)))
            if draw(st.integers(0, 11)) == 0:
                m = draw(st.sampled_from([16, 17, 20, 33]))     # more rows than any worker count (cpu count is 16)
        if self.contextual:
            return draw(contexts_st(m, self.d, self.query_grid))
        # context-free bandits: None, or 2-D contexts they must ignore
        if draw(st.booleans()):
            return None
        return draw(contexts_st(m, draw(st.integers(1, 2)), self.grid))

    # -- ops
    def fit(self, new_d=False, **kw):
        if self.refit_new_d and self.fitted and self.draw(st.integers(0, 3)) == 0:
            new_d = True            # a re-fit on contexts with another number of feature columns
        if new_d and self.contextual:
            self.d = self.draw(st.integers(1, 3))
        dec, rew, ctx = self.batch(min_rows=self.min_rows, **kw)
        self.fitted = True
        self.rows = len(dec)
        return self._emit(["fit", dec, rew, ctx])

    def partial_fit(self, **kw):
        first = not self.fitted
        dec, rew, ctx = self.batch(min_rows=self.min_rows if first else 1, **kw)
        self.rows = len(dec) if first else self.rows + len(dec)
        self.fitted = True
        return self._emit(["partial_fit", dec, rew, ctx])

    def _query_op(self, kind, m):
        q = self.queries(m)
        if self.series_queries and self.contextual and q is not None and (self.d == 1 or len(q) == 1) \
                and self.draw(st.integers(0, 5)) == 0:
            # the same query as a pandas Series, where the documented disambiguation applies: one feature -> one row
            # per value, several features -> a single row
            vals = [r[0] for r in q] if self.d == 1 else list(q[0])
            return self._emit([kind + "_series", vals, len(q)])      # (third element: the number of rows it stands for)
        return self._emit([kind, q])

    def predict(self, m=None):
        return self._query_op("predict", m)

    def predict_expectations(self, m=None):
        return self._query_op("predict_expectations", m)

    def query(self, m=None):
        if self.draw(st.booleans()):
            return self.predict(m)
        return self.predict_expectations(m)

    def can_add(self):
        return self.arm_changes and not self.has_prob_list and self._free_labels()

    def can_remove(self):
        return self.arm_changes and not self.has_prob_list and len(self.arms) > 1

    def _free_labels(self):
        return [a for a in POOLS[self.kind] if a not in self.arms]

    def add_arm(self, binarizer=None):
        free = self._free_labels()
        readd = [a for a in self.removed if a in free]
        if readd and self.draw(st.booleans()):
            arm = self.draw(st.sampled_from(readd))
        else:
            arm = self.draw(st.sampled_from(free))
        self.arms.append(arm)
        op = ["add_arm", arm] if binarizer is None else ["add_arm", arm, binarizer]
        return self._emit(op)

    def remove_arm(self):
        arm = self.draw(st.sampled_from(self.arms))
        self.arms.remove(arm)
        self.removed.append(arm)
        return self._emit(["remove_arm", arm])

    def can_warm(self):
        return len(self.arms) >= 2

    def warm_start(self, ensure_defined=True):
        draw = self.draw
        nf = draw(st.integers(1, 3))
        feats = [[a, draw(st.lists(st.integers(-2, 2), min_size=nf, max_size=nf))] for a in self.arms]
        if ensure_defined and sum(1 for _, v in feats if any(v)) < 2:
            # the documented cosine distance must be defined for at least one pair of arms
            for i in range(2):
                if not any(feats[i][1]):
                    feats[i][1][draw(st.integers(0, nf - 1))] = draw(st.sampled_from([1, -1, 2]))
        q = draw(st.sampled_from([0.0, 0.25, 0.5, 0.75, 1.0, 0.1, 0.9]))
        if draw(st.booleans()):
            feats = draw(perm_st(feats))     # the dictionary need not list the arms in the bandit's order
        return self._emit(["warm_start", feats, q])

    def cold_arms(self):
        return self._emit(["cold_arms"])

    def policies(self):
        return self._emit(["policies"])

    def _emit(self, op):
        self.ops.append(op)
        return op

    def step(self, kinds):
        """Draw one applicable op among the given kinds (weights by repetition)."""
        ok = []
        for k in kinds:
            if k in ("predict", "predict_expectations", "query") and not self.fitted:
                continue
            if k == "add_arm" and not self.can_add():
                continue
            if k == "remove_arm" and not self.can_remove():
                continue
            if k == "warm_start" and not self.can_warm():
                continue
            ok.append(k)
        if not ok:
            ok = ["fit"]
        k = self.draw(st.sampled_from(ok))
        return getattr(self, k)()

    def random_history(self, n_steps, kinds):
        for _ in range(n_steps):
            self.step(kinds)
        return self.ops


# ------------------------------------------------------------------------------------------------
# generic histories over every policy pair

TRAIN_KINDS = ["fit", "partial_fit", "partial_fit"]
ARM_KINDS = ["add_arm", "remove_arm"]
QUERY_KINDS = ["predict", "predict_expectations"]
WARM_KINDS = ["warm_start"]


def step_any(h, kinds, binarizer_on_add=False):
    """One op; add_arm may install a new binarizer on a Thompson bandit that already has one."""
    draw = h.draw
    ok = [k for k in kinds if not (
        (k in ("predict", "predict_expectations", "query") and not h.fitted)
        or (k == "add_arm" and not h.can_add()) or (k == "remove_arm" and not h.can_remove())
        or (k == "warm_start" and not h.can_warm()))]
    if not ok:
        ok = ["fit"]
    k = draw(st.sampled_from(ok))
    if k == "add_arm" and binarizer_on_add and h.lp[0] == "ThompsonSampling" and draw(st.booleans()):
        had = h.lp[1].get("binarizer") is not None or getattr(h, "binarizer_installed", False)
        if had or draw(st.booleans()):
            # a Thompson bandit constructed without a binarizer may get its first one from add_arm: from then on
            # non-binary rewards are valid input
            op = h.add_arm(draw(binarizer_st(h.arms)))
            if not had:
                h.binarizer_installed = True
                h.family = draw(st.sampled_from(["Sint", "S"]))
            return op
    return getattr(h, k)()


@st.composite
def history_plan_st(draw, tier="quick", max_steps=12, config_kw=None, hist_kw=None, kinds=None,
                    prefit_changes=True, start_fitted=True, binarizer_on_add=False):
    cfg = draw(config_st(**(config_kw or {})))
    h = History(draw, cfg, **(hist_kw or {}))
    kinds = kinds or (TRAIN_KINDS + ARM_KINDS + QUERY_KINDS * 2 + WARM_KINDS)
    if prefit_changes:
        for _ in range(draw(st.sampled_from([0, 0, 0, 1, 2]))):
            step_any(h, ARM_KINDS + WARM_KINDS, binarizer_on_add)
    if start_fitted:
        h.fit() if draw(st.integers(0, 3)) else h.partial_fit()
    n = draw(st.integers(1, max_steps))
    for _ in range(n):
        step_any(h, kinds, binarizer_on_add)
    return {"config": cfg, "ops": h.ops, "family": h.family, "d": h.d}
