#!/usr/bin/env python3
"""Regenerate MANIFEST.json from the check modules present under checks/ (run from /verif).

A property with a checks/cXX.py module that declares MANIFEST = {...} is claimed; every other property of
properties.jsonl is listed under not_applicable with the reason recorded in NOT_CLAIMED below.
"""
import ast
import json
import os
import subprocess

HERE = os.path.dirname(os.path.dirname(os.path.abspath(__file__)))

NOT_CLAIMED = {}   # property id -> reason (only for properties deliberately not claimed)
PENDING = "check not built yet in this round (planned in DESIGN.md section 4); not claimed until it is registered"


def module_manifest(path):
    tree = ast.parse(open(path).read())
    for node in tree.body:
        if isinstance(node, ast.Assign) and any(getattr(t, "id", None) == "MANIFEST" for t in node.targets):
            return ast.literal_eval(node.value)
    return None


def main():
    props = [json.loads(l) for l in open(os.path.join(HERE, "properties.jsonl")) if l.strip()]
    fixes = subprocess.run(["git", "-C", "/repo", "log", "--format=%H %s"], capture_output=True, text=True).stdout
    fix_commits = [l.split()[0] for l in fixes.splitlines() if l.split(" ", 1)[1].startswith("fix:")]
    checks, na = [], []
    for p in props:
        pid = p["id"]
        path = os.path.join(HERE, "checks", pid.lower() + ".py")
        m = module_manifest(path) if os.path.exists(path) else None
        if m is None:
            na.append({"property_id": pid, "reason": NOT_CLAIMED.get(pid, PENDING)})
            continue
        checks.append({
            "property_id": pid,
            "quick_cmd": "python3 run_check.py %s --tier quick" % pid,
            "thorough_cmd": "python3 run_check.py %s --tier thorough" % pid,
            "evidence_file": "evidence/%s.json" % pid,
            "replay_cmd_template": "python3 run_check.py %s --replay {path}" % pid,
            "engine": "hypothesis-sharded",
            "level_claimed": {"category": m["level"], "text": m["text"], "design_ref": m["design_ref"]},
            "level_note": m["note"],
            "technique": m["technique"],
        })
    manifest = {
        "version": 1,
        "setup_cmd": "./setup.sh",
        "hooks": {
            "guard": "FIDELITY_MABWISER_VERIF",
            "enable": "no source hook exists: every observation point is reachable from Python (public API, the "
                      "attributes the properties name in observe_at, monkeypatching joblib.Parallel from the "
                      "harness); checks set FIDELITY_MABWISER_VERIF=1 but the library does not read it",
            "baseline_off_cmd": "cd /repo && /venv/bin/python -m pytest -ra -q -p no:cacheprovider --timeout=900 "
                                "--continue-on-collection-errors",
            "source_commits": [],
            "add_only": True,
        },
        "engines": [{
            "name": "hypothesis-sharded", "path": "vlib/runner.py",
            "serves_properties": [c["property_id"] for c in checks],
            "kind_free_text": "Hypothesis 6.168 @given over model-based plan generators (histories are generated "
                              "with a lightweight model of the bandit so every op is valid by construction), 16 "
                              "seeded shards, explicit oracles (reference model / differential twin / metamorphic "
                              "relation / invariant), shrunk failures saved as JSON replay plans that bypass "
                              "Hypothesis; exhaustive enumeration where the domain is finite",
        }],
        "checks": checks,
        "not_applicable": na,
        "notes": "Every check: exit 0 held / exit 1 with VIOLATION lines / exit 2 harness error. VERIF_SEED selects "
                 "the Hypothesis seeds; VERIF_REPO (default /repo) selects the tree under test. Known findings "
                 "and fixed defects are listed in known_findings.json. No hook or instrumentation commit exists in /repo "
                 "(hooks.source_commits is empty); the unguarded 'fix:' commits that repair genuine defects are, oldest "
                 "first: " + ", ".join(c[:10] for c in reversed(fix_commits)) + ".",
    }
    with open(os.path.join(HERE, "MANIFEST.json"), "w") as f:
        json.dump(manifest, f, indent=1)
    print("MANIFEST.json: %d checks, %d not_applicable" % (len(checks), len(na)))


if __name__ == "__main__":
    main()
