#!/usr/bin/env python3
"""Run checks against every seeded change under /verif/seeded: scratch copy of /repo HEAD + git apply patch.diff,
checks run with VERIF_REPO pointing at the copy.  Writes seeded/MATRIX.json.

    tools/seeded_matrix.py [--props C01,C02,...] [--only NAME_PREFIX] [--target] [--seeds 1,2,3]
--target runs only the property a change was written against (the first three characters of its directory name);
--seeds repeats every run at several VERIF_SEED values and records the exit code per seed (how robust the detection is).
A patch that no longer applies to HEAD (the code it touched was repaired since) is reported as such.
"""
import json
import os
import shutil
import subprocess
import sys
import tempfile
import time

HERE = os.path.dirname(os.path.dirname(os.path.abspath(__file__)))
ALL = ["C%02d" % i for i in range(1, 21)]


def main():
    props = ALL
    only = None
    if "--props" in sys.argv:
        props = sys.argv[sys.argv.index("--props") + 1].split(",")
    if "--only" in sys.argv:
        only = sys.argv[sys.argv.index("--only") + 1]
    seeds = ["1"]
    if "--seeds" in sys.argv:
        seeds = sys.argv[sys.argv.index("--seeds") + 1].split(",")
    target = "--target" in sys.argv
    import re
    match = re.compile(sys.argv[sys.argv.index("--match") + 1]) if "--match" in sys.argv else None
    out_path = os.path.join(HERE, "seeded", "MATRIX.json")
    res = json.load(open(out_path)) if os.path.exists(out_path) else {}
    for name in sorted(os.listdir(os.path.join(HERE, "seeded"))):
        d = os.path.join(HERE, "seeded", name)
        if not os.path.isdir(d) or (only and not name.startswith(only)) or (match and not match.search(name)):
            continue
        tmp = tempfile.mkdtemp(prefix="sm_%s_" % name)
        try:
            subprocess.run("git -C /repo archive HEAD mabwiser | tar -x -C %s" % tmp, shell=True, check=True)
            subprocess.run(["git", "init", "-q"], cwd=tmp)
            r = subprocess.run(["git", "apply", os.path.join(d, "patch.diff")], cwd=tmp, capture_output=True, text=True)
            if r.returncode != 0:
                res[name] = {"applies_to_head": False, "note": r.stderr[-300:]}
                print(name, "patch does not apply to HEAD", flush=True)
                continue
            row = res.setdefault(name, {})
            row["applies_to_head"] = True
            row.setdefault("checks", {})
            tprops = props
            if target:
                # the property the change was written against, plus the checks recorded as catching it when it was
                # taken in (a change is often caught by a neighbouring property's check)
                tprops = [name[:3]]
                try:
                    meta = json.load(open(os.path.join(d, "meta.json")))
                    tprops += [k for k, v in (meta.get("checks_quick_tier") or {}).items()
                               if v.get("exit") == 1 and k not in tprops]
                except Exception:
                    pass
            for p in tprops:
                t0 = time.time()
                exits, viol = {}, []
                for sd in seeds:
                    env = dict(os.environ, VERIF_REPO=tmp, VERIF_SEED=sd)
                    env.pop("_VERIF_PINNED", None)
                    r = subprocess.run([sys.executable, os.path.join(HERE, "run_check.py"), p, "--tier", "quick"],
                                       capture_output=True, text=True, env=env, cwd=HERE)
                    exits[sd] = r.returncode
                    viol += [l.split("bucket=")[-1] for l in r.stdout.splitlines() if l.startswith("VIOLATION")]
                row["checks"][p] = {"exit": max(exits.values()) if 1 not in exits.values() else 1,
                                    "exit_by_seed": exits, "violations": sorted(set(viol))[:5],
                                    "wall_s": round(time.time() - t0, 1)}
                print("%-48s %s exits=%s %s" % (name, p, exits, sorted(set(viol))[:2]), flush=True)
            row["caught_by"] = sorted(p for p, v in row["checks"].items() if v["exit"] == 1)
            json.dump(res, open(out_path, "w"), indent=1, sort_keys=True)
        finally:
            shutil.rmtree(tmp, ignore_errors=True)
    json.dump(res, open(out_path, "w"), indent=1, sort_keys=True)
    subprocess.run(["git", "-C", HERE, "checkout", "--", "evidence"], capture_output=True)


if __name__ == "__main__":
    main()
