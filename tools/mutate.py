#!/usr/bin/env python3
"""Sensitivity protocol: apply a textual mutant to a scratch copy of /repo and run checks against it.

    tools/mutate.py run  MUTANT [PROPERTY ...]     -> runs the quick tier of the listed properties (default: the
                                                      mutant's 'props') with VERIF_REPO pointing at the scratch copy
    tools/mutate.py all  [--props C01,C08]          -> every mutant of sensitivity/mutants.json, results merged into
                                                      sensitivity/RESULTS.json
The scratch copy lives under /tmp and is removed afterwards.
"""
import json
import os
import shutil
import subprocess
import sys
import tempfile
import time

HERE = os.path.dirname(os.path.dirname(os.path.abspath(__file__)))
MUTANTS = os.path.join(HERE, "sensitivity", "mutants.json")
RESULTS = os.path.join(HERE, "sensitivity", "RESULTS.json")


def load():
    return json.load(open(MUTANTS))["mutants"]


def make_copy(m):
    d = tempfile.mkdtemp(prefix="mut_%s_" % m["name"])
    shutil.copytree("/repo/mabwiser", os.path.join(d, "mabwiser"), ignore=shutil.ignore_patterns("__pycache__"))
    for e in m["edits"]:
        p = os.path.join(d, e["file"])
        s = open(p).read()
        if s.count(e["old"]) != 1:
            shutil.rmtree(d)
            raise ValueError("mutant %s: pattern occurs %d times in %s" % (m["name"], s.count(e["old"]), e["file"]))
        open(p, "w").write(s.replace(e["old"], e["new"]))
    return d


def run(m, props, tier="quick", seed="1"):
    d = make_copy(m)
    out = {}
    try:
        for prop in props:
            t0 = time.time()
            env = dict(os.environ, VERIF_REPO=d, VERIF_SEED=seed)
            env.pop("_VERIF_PINNED", None)
            r = subprocess.run([sys.executable, os.path.join(HERE, "run_check.py"), prop, "--tier", tier],
                               capture_output=True, text=True, env=env, cwd=HERE)
            viol = [l for l in r.stdout.splitlines() if l.startswith("VIOLATION")]
            out[prop] = {"exit": r.returncode, "violations": [v.split("bucket=")[-1] for v in viol],
                         "wall_s": round(time.time() - t0, 1)}
            print("%-28s %s exit=%d %s %.0fs" % (m["name"], prop, r.returncode, out[prop]["violations"][:3],
                                                 time.time() - t0), flush=True)
            if r.returncode == 2:
                print(r.stderr[-1500:])
    finally:
        shutil.rmtree(d, ignore_errors=True)
    return out


def main():
    cmd = sys.argv[1]
    ms = load()
    if cmd == "run":
        m = [x for x in ms if x["name"] == sys.argv[2]][0]
        props = sys.argv[3:] or m["props"]
        run(m, props)
        # evidence files were overwritten by the mutant runs: restore from git
        subprocess.run(["git", "-C", HERE, "checkout", "--", "evidence"], capture_output=True)
        return
    if cmd == "all":
        only = None
        if "--props" in sys.argv:
            only = sys.argv[sys.argv.index("--props") + 1].split(",")
        res = json.load(open(RESULTS)) if os.path.exists(RESULTS) else {}
        for m in ms:
            props = [p for p in m["props"] if only is None or p in only]
            if not props:
                continue
            try:
                r = run(m, props)
            except ValueError as e:
                print("SKIPPED (stale pattern):", e, flush=True)
                continue
            res.setdefault(m["name"], {"what": m["what"], "results": {}})["results"].update(r)
        json.dump(res, open(RESULTS, "w"), indent=1, sort_keys=True)
        subprocess.run(["git", "-C", HERE, "checkout", "--", "evidence"], capture_output=True)


if __name__ == "__main__":
    main()
