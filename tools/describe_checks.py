#!/usr/bin/env python3
"""Print a markdown table of the registered checks (sub-checks, budgets, technique) from the check modules."""
import os, sys
HERE = os.path.dirname(os.path.dirname(os.path.abspath(__file__)))
sys.path.insert(0, HERE); sys.path.insert(0, os.environ.get("VERIF_REPO", "/repo"))
import importlib
print("| id | sub-checks (quick / thorough cases; E = exhaustive enumeration, A = atheris campaign) | deciding method |")
print("|----|------|------|")
for i in range(1, 21):
    m = importlib.import_module("checks.c%02d" % i)
    subs = []
    for s in m.SUBCHECKS:
        if s.enumerate_fn is not None:
            subs.append("%s (E)" % s.name)
        elif s.external is not None:
            subs.append("%s (A, thorough only)" % s.name)
        else:
            subs.append("%s (%d / %d)" % (s.name, s.budget["quick"], s.budget["thorough"]))
    print("| %s | %s | %s |" % (m.PROPERTY, "; ".join(subs), m.MANIFEST["technique"]))
