#!/bin/bash
# usage: mkseed.sh C03 g
PID=$1; SUF=$2; D=/tmp/seed_${PID}${SUF}
rm -rf $D; mkdir -p $D
git -C /repo worktree add -q --detach $D/wt HEAD
/venv/bin/python - <<P
import json
for l in open('/verif/properties.jsonl'):
    p=json.loads(l)
    if p['id']=='$PID':
        open('$D/prop.txt','w').write("Property %s: %s\n\nStatement: %s\n\nQuantifier: %s\n\nWhy the unit tests cannot settle it: %s\n\nAnchors: %s\n" % (p['id'],p['title'],p['statement'],p['quantifier'],p['why_tests_cant'],json.dumps(p['anchors'])))
t=open('/verif/tools/seed_prompt_template.txt').read()
t=t.replace('{WT}','$D/wt').replace('{PROP}','$D/prop.txt').replace('{OUT}','$D').replace('{PID}','$PID')
open('$D/prompt.txt','w').write(t)
P
echo $D
