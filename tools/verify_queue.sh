#!/bin/bash
# usage: verify_q.sh "<dir> <name> <props> <tests>" ...
cd /verif
for spec in "$@"; do
  set -- $spec
  echo "=== $2"; python3 tools/seeded.py verify $1 $2 --props $3 --tests $4 2>&1 | grep -v conda | tail -6
done
