#!/bin/sh
# tools/coverage_report.sh [seed]: run every quick check with line/branch coverage of /repo/mabwiser switched on in the
# workers (VERIF_COVERAGE), combine, and print the lines of the library no generated case reached.
# A measurement aid for the generators, not a check: nothing registered in MANIFEST.json depends on it.
S=${1:-1}
D=$(mktemp -d /tmp/verifcov.XXXXXX)
cd "$(dirname "$0")/.."
for P in C01 C02 C03 C04 C05 C06 C07 C08 C09 C10 C11 C12 C13 C14 C15 C16 C17 C18 C19 C20; do
  VERIF_SEED=$S VERIF_COVERAGE=$D COVERAGE_CORE=sysmon python3 run_check.py $P --tier quick | tail -1
done
cd $D && /venv/bin/python -m coverage combine -q --data-file=$D/.coverage $D/cov_* && \
  /venv/bin/python -m coverage report --data-file=$D/.coverage -m --skip-empty | tee /tmp/verif_coverage_report.txt
git -C "$OLDPWD" checkout -- evidence 2>/dev/null
rm -rf $D
