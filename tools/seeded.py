#!/usr/bin/env python3
"""Confirm a seeded change produced by an independent sub-agent and run the checks against it.

    tools/seeded.py verify /tmp/seed_C01 NAME [--props C01,C06] [--tests tests/test_ucb.py,...] [--all]

The sub-agent's worktree (<dir>/wt, change applied) is used as the tree under test (VERIF_REPO).  Steps:
  1. the patch applies to a clean checkout of /repo's HEAD (git apply --check in a scratch worktree);
  2. the demonstration fails with the change and passes without it (git stash / stash pop in the agent's worktree);
  3. the listed existing test files pass with the change;
  4. the listed checks (default: the property named in meta.json; --all: every check) are run with VERIF_REPO=<dir>/wt.
Results are written to /verif/seeded/NAME/{patch.diff,demo.py,meta.json}.  Nothing is ever committed to /repo.
"""
import json
import os
import shutil
import subprocess
import sys
import time

HERE = os.path.dirname(os.path.dirname(os.path.abspath(__file__)))
ALL = ["C%02d" % i for i in range(1, 21)]


def sh(cmd, cwd=None, env=None, timeout=3600):
    r = subprocess.run(cmd, shell=True, cwd=cwd, env=env, capture_output=True, text=True, timeout=timeout)
    return r.returncode, (r.stdout + r.stderr)


def main():
    d, name = sys.argv[2], sys.argv[3]
    wt = os.path.join(d, "wt")
    args = sys.argv[4:]
    meta = json.load(open(os.path.join(d, "meta.json")))
    props = [meta["property"]]
    tests = []
    if "--props" in args:
        props = args[args.index("--props") + 1].split(",")
    if "--all" in args:
        props = ALL
    if "--tests" in args:
        tests = args[args.index("--tests") + 1].split(",")
    out = {"agent_meta": meta, "ran": {}}
    env = dict(os.environ, PYTHONPATH=wt)
    # 0. state of the worktree: change applied?
    rc, diff = sh("git diff", cwd=wt)
    want = open(os.path.join(d, "patch.diff")).read()
    if diff.strip() and diff.strip() != want.strip():
        print("worktree diff differs from patch.diff: resetting the worktree to the patch")
        sh("git checkout -- .", cwd=wt)
        diff = ""
    if not diff.strip():
        rc, o = sh("git apply %s" % os.path.join(d, "patch.diff"), cwd=wt)
        print("applied patch to worktree:", rc, o[:200])
    # 1. patch applies to a clean checkout
    chk = "/tmp/sv_%s" % name
    sh("git -C /repo worktree add -q --detach %s HEAD" % chk)
    rc, o = sh("git apply --check %s" % os.path.join(d, "patch.diff"), cwd=chk)
    out["ran"]["patch_applies_to_clean_HEAD"] = (rc == 0)
    sh("git -C /repo worktree remove --force %s" % chk)
    # 2. demonstration
    rc_with, o_with = sh("/venv/bin/python %s" % os.path.join(d, "demo.py"), cwd=wt, env=env)
    # (git stash is shared between all worktrees of a repository: reverse-apply the patch instead)
    rc_r, o_r = sh("git apply -R %s" % os.path.join(d, "patch.diff"), cwd=wt)
    rc_without, o_without = sh("/venv/bin/python %s" % os.path.join(d, "demo.py"), cwd=wt, env=env)
    rc_a, o_a = sh("git apply %s" % os.path.join(d, "patch.diff"), cwd=wt)
    if rc_r or rc_a:
        print("WARNING: reverse/apply of the patch failed:", o_r[-200:], o_a[-200:])
    out["ran"]["demo_exit_with_change"] = rc_with
    out["ran"]["demo_exit_without_change"] = rc_without
    out["ran"]["demo_tail_with_change"] = o_with[-400:]
    print("demo: with change exit %d, without %d" % (rc_with, rc_without))
    # 3. existing tests
    if tests:
        rc, o = sh("/venv/bin/python -m pytest -q -p no:cacheprovider %s 2>&1 | tail -3" % " ".join(tests), cwd=wt, env=env)
        out["ran"]["existing_tests"] = {"files": tests, "tail": o[-300:]}
        print("tests:", o[-200:].strip())
    # 4. checks
    res = {}
    for p in props:
        t0 = time.time()
        e = dict(os.environ, VERIF_REPO=wt)
        e.pop("_VERIF_PINNED", None)
        r = subprocess.run([sys.executable, os.path.join(HERE, "run_check.py"), p, "--tier", "quick"],
                           capture_output=True, text=True, env=e, cwd=HERE)
        viol = [l.split("bucket=")[-1] for l in r.stdout.splitlines() if l.startswith("VIOLATION")]
        res[p] = {"exit": r.returncode, "violations": viol, "wall_s": round(time.time() - t0, 1)}
        print("%s exit=%d %s" % (p, r.returncode, viol[:4]), flush=True)
        if r.returncode == 2:
            print(r.stderr[-800:])
    out["checks_quick_tier"] = res
    out["caught_by"] = sorted(p for p, v in res.items() if v["exit"] == 1)
    subprocess.run(["git", "-C", HERE, "checkout", "--", "evidence"], capture_output=True)
    dst = os.path.join(HERE, "seeded", name)
    os.makedirs(dst, exist_ok=True)
    shutil.copy(os.path.join(d, "patch.diff"), dst)
    shutil.copy(os.path.join(d, "demo.py"), dst)
    prev = {}
    if os.path.exists(os.path.join(dst, "meta.json")):
        prev = json.load(open(os.path.join(dst, "meta.json")))
        if "checks_quick_tier" in prev:
            prev["checks_quick_tier"].update(res)
            out["checks_quick_tier"] = prev["checks_quick_tier"]
            out["caught_by"] = sorted(p for p, v in out["checks_quick_tier"].items() if v["exit"] == 1)
    rc, base = sh("git rev-parse --short HEAD", cwd=wt)
    m = {"property": meta["property"], "base_commit": base.strip(), "summary": meta.get("summary"), "needs": meta.get("needs"),
         "files": meta.get("files"), "agent_tests_run": meta.get("tests_run"), "verified": out["ran"],
         "checks_quick_tier": out["checks_quick_tier"], "caught_by": out["caught_by"],
         "how_run": "tools/seeded.py verify: demo run with and without the change in the sub-agent's scratch "
                    "worktree; checks run with VERIF_REPO pointing at that worktree (equivalent to git -C /repo "
                    "apply; run; git -C /repo checkout -- .)"}
    json.dump(m, open(os.path.join(dst, "meta.json"), "w"), indent=1)
    print("caught by:", out["caught_by"])


if __name__ == "__main__":
    main()
