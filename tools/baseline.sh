#!/bin/sh
# Run the repository's own suite on a scratch worktree of /repo's HEAD (guard off); compare with BASELINE.json.
SHA=$(git -C /repo rev-parse --short HEAD)
D=/tmp/bt_$SHA
git -C /repo worktree add -q --detach $D HEAD || exit 2
cd $D && env -u FIDELITY_MABWISER_VERIF /venv/bin/python -m pytest -q -p no:cacheprovider --timeout=900 -n0 \
    --continue-on-collection-errors --junitxml=/tmp/baseline_$SHA.xml > /tmp/baseline_$SHA.log 2>&1 || \
  env -u FIDELITY_MABWISER_VERIF /venv/bin/python -m pytest -q -p no:cacheprovider --timeout=900 \
    --continue-on-collection-errors --junitxml=/tmp/baseline_$SHA.xml > /tmp/baseline_$SHA.log 2>&1
cd / && git -C /repo worktree remove --force $D
/venv/bin/python - <<PY
import json, xml.etree.ElementTree as ET
b = json.load(open('/root/.vp/BASELINE.json'))
want = set(b['stable_pass'])
t = ET.parse('/tmp/baseline_$SHA.xml')
passed = set()
failed = []
for tc in t.iter('testcase'):
    name = tc.get('classname') + '::' + tc.get('name')
    if any(c.tag in ('failure', 'error', 'skipped') for c in tc):
        failed.append(name)
    else:
        passed.add(name)
print('commit $SHA: passed', len(passed), 'failed', failed)
print('stable_pass missing:', sorted(want - passed))
PY
