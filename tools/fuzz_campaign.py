#!/usr/bin/env python3
"""Coverage-guided campaign (atheris / libFuzzer) over one sub-check's Hypothesis generator and oracle.

    fuzz_campaign.py PROP SUBCHECK --seconds N --seed S --corpus empty|seeded --out RESULT.json [--active k1,k2]

libFuzzer mutates a byte string, Hypothesis' fuzz_one_input decodes it with the sub-check's strategy into a plan, and
the sub-check's evaluate() judges it, so the semantic oracle sits inside the fuzz target.  mabwiser is imported under
atheris.instrument_imports so that branch coverage of the library guides the search.  A Violation is written as a
replay plan and then re-raised, which makes libFuzzer stop; a time-out is 'inconclusive', never a violation.
Counters are flushed to RESULT.json from inside the target (atexit handlers do not run under atheris).
"""
import argparse
import json
import os
import sys
import time

HERE = os.path.dirname(os.path.dirname(os.path.abspath(__file__)))
sys.path.insert(0, HERE)
sys.path.insert(0, os.path.join(HERE, ".deps"))


def main():
    ap = argparse.ArgumentParser()
    ap.add_argument("property")
    ap.add_argument("subcheck")
    ap.add_argument("--seconds", type=int, default=60)
    ap.add_argument("--seed", type=int, default=1)
    ap.add_argument("--corpus", default="empty")
    ap.add_argument("--out", required=True)
    ap.add_argument("--workdir", required=True)
    ap.add_argument("--active", default="")
    a = ap.parse_args()
    from vlib import env
    try:
        import atheris
    except Exception as e:
        json.dump({"unavailable": repr(e)}, open(a.out, "w"))
        return 0
    rd = env.repo_dir()
    sys.path.insert(0, rd)
    import warnings
    warnings.filterwarnings("ignore")
    import logging
    logging.disable(logging.CRITICAL)
    with atheris.instrument_imports(include=["mabwiser"], enable_loader_override=False):
        import mabwiser.mab  # noqa
        import mabwiser.simulator  # noqa
    if not os.path.realpath(mabwiser.mab.__file__).startswith(os.path.realpath(rd)):
        raise RuntimeError("mabwiser imported from %s" % mabwiser.mab.__file__)
    from hypothesis import HealthCheck, given, settings
    from vlib import runner
    mod = runner.load_check(a.property)
    sub = runner.find_sub(mod, a.subcheck)
    ctx = runner.Ctx(a.property, "thorough", [k for k in a.active.split(",") if k])
    stats = {"evaluations": 0, "nontrivial": [], "events": {}, "violations": [], "invalid": 0, "seconds": a.seconds,
             "corpus": a.corpus, "seed": a.seed}
    nt = set()
    t0 = time.time()
    last = [t0]

    def flush():
        stats["nontrivial"] = sorted(nt)
        stats["wall_s"] = time.time() - t0
        with open(a.out + ".tmp", "w") as f:
            json.dump(stats, f, default=str)
        os.replace(a.out + ".tmp", a.out)

    @settings(deadline=None, database=None, suppress_health_check=list(HealthCheck))
    @given(sub.strategy("thorough", ctx))
    def target(plan):
        try:
            r = sub.evaluate(plan, ctx)
        except runner.Violation as v:
            if runner.match_known(mod, ctx, plan, v) is None:
                stats["violations"].append({"subcheck": sub.name, "bucket": "%s:%s" % (sub.name, v.bucket),
                                            "clause": v.clause, "detail": v.detail[:2000], "plan": plan})
                flush()
                raise
            return
        stats["evaluations"] += 1
        if r.nontrivial:
            nt.add(runner.plan_hash(plan))
        for e in set(r.events):
            stats["events"][e] = stats["events"].get(e, 0) + 1
        if time.time() - last[0] > 5:
            last[0] = time.time()
            flush()

    fuzz_one = target.hypothesis.fuzz_one_input
    corpus = os.path.join(a.workdir, "corpus")
    os.makedirs(corpus, exist_ok=True)
    if a.corpus == "seeded":
        import hashlib
        n = 0
        for i in range(400):
            raw = hashlib.sha256(b"%d-%d" % (a.seed, i)).digest() * 40
            try:
                canon = fuzz_one(raw)
            except runner.Violation:
                break
            if canon:
                with open(os.path.join(corpus, "seed_%03d" % n), "wb") as f:
                    f.write(canon)
                n += 1
                if n >= 12:
                    break
        stats["seed_inputs"] = n

    def one(data):
        fuzz_one(data)

    flush()
    argv = [sys.argv[0], "-max_total_time=%d" % a.seconds, "-seed=%d" % (a.seed % (2 ** 31 - 1) + 1), "-max_len=8192",
            "-artifact_prefix=%s/" % a.workdir, "-print_final_stats=1", corpus]
    atheris.Setup(argv, one)
    atheris.Fuzz()


if __name__ == "__main__":
    sys.exit(main())
