#!/usr/bin/env python3
"""add_finding.py PROPERTY KEY STATUS REPLAY "WHAT" [COMMIT]  -- append/replace an entry of known_findings.json."""
import json, os, sys
HERE = os.path.dirname(os.path.dirname(os.path.abspath(__file__)))
prop, key, status, replay, what = sys.argv[1:6]
commit = sys.argv[6] if len(sys.argv) > 6 else None
p = os.path.join(HERE, "known_findings.json")
d = json.load(open(p))
d["findings"] = [e for e in d["findings"] if not (e["property"] == prop and e["key"] == key)]
e = {"property": prop, "key": key, "status": status, "replay": replay}
if status == "fixed":
    e["commit"] = commit
    e["what"] = "fixed: property=%s %s %s" % (prop, commit, what)
else:
    e["what"] = what
assert os.path.exists(os.path.join(HERE, replay)), replay
d["findings"].append(e)
json.dump(d, open(p, "w"), indent=1)
print("ok", len(d["findings"]))
