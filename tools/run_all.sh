#!/bin/sh
# tools/run_all.sh [tier] [seed...]  - run every registered check, print one line per check
TIER=${1:-quick}; shift
SEEDS=${@:-1}
cd "$(dirname "$0")/.."
for S in $SEEDS; do
  for P in C01 C02 C03 C04 C05 C06 C07 C08 C09 C10 C11 C12 C13 C14 C15 C16 C17 C18 C19 C20; do
    OUT=$(VERIF_SEED=$S python3 run_check.py $P --tier $TIER 2>&1); RC=$?
    mkdir -p /tmp/run_all_logs; echo "$OUT" > /tmp/run_all_logs/${P}_${TIER}_$S.log
    echo "seed=$S rc=$RC $(echo "$OUT" | grep -v KNOWN-FINDING | grep "^C[0-9][0-9] \|VIOLATION\|HARNESS" | tr '\n' ' ' | cut -c1-300)"
  done
done
