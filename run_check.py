#!/usr/bin/env python3
"""Entry point of every check.

    python3 run_check.py C01 [--tier quick|thorough] [--only sub1,sub2]
    python3 run_check.py C01 --replay replays/C01/x.json

exit 0: the property held on everything explored (KNOWN-FINDING lines may be printed)
exit 1: at least one line  VIOLATION property=<id> replay=<path>
exit 2: harness error (never reported as a violation)
"""
import argparse
import os
import sys

sys.path.insert(0, os.path.dirname(os.path.abspath(__file__)))
from vlib import env  # noqa: E402


def main():
    ap = argparse.ArgumentParser()
    ap.add_argument("property")
    ap.add_argument("--tier", default=os.environ.get("VERIF_TIER", "quick"), choices=["quick", "thorough"])
    ap.add_argument("--replay")
    ap.add_argument("--only")
    ap.add_argument("--worker", type=int)
    ap.add_argument("--nworkers", type=int, default=1)
    ap.add_argument("--out")
    ap.add_argument("--active", default="")
    a = ap.parse_args()
    env.ensure_interpreter()
    os.chdir(env.VERIF_DIR)
    from vlib import runner
    prop = a.property.upper()
    only = [s for s in a.only.split(",") if s] if a.only else None
    try:
        if a.worker is not None:
            active = [k for k in a.active.split(",") if k]
            return runner.worker_main(prop, a.tier, a.worker, a.nworkers, active, a.out, only)
        if a.replay:
            return runner.replay_main(prop, a.replay)
        return runner.parent_main(prop, a.tier, only)
    except SystemExit:
        raise
    except BaseException:
        import traceback
        sys.stderr.write("HARNESS ERROR\n" + traceback.format_exc())
        return 2


if __name__ == "__main__":
    sys.exit(main())
