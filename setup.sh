#!/bin/sh
# Offline setup: hypothesis into /venv if a restore lacks it; atheris into /verif/.deps (optional, thorough tier of
# C08/C17 only); import self-test.  Nothing is fetched from a network.
set -e
cd "$(dirname "$0")"
WHEELS=/opt/veriftools/wheels
if ! /venv/bin/python -c "import hypothesis" 2>/dev/null; then
    /venv/bin/pip install --no-index --find-links "$WHEELS" hypothesis
fi
if [ ! -d .deps/atheris ]; then
    /venv/bin/pip install -q --no-index --find-links "$WHEELS" --target .deps atheris 2>/dev/null || \
        echo "setup: atheris not installable here; the coverage-guided campaigns will report 'unavailable'"
fi
PYTHONPATH=/repo:. /venv/bin/python -c "
import hypothesis, numpy, scipy, sklearn, pandas, joblib, mabwiser.mab
print('setup ok: hypothesis', hypothesis.__version__, 'mabwiser from', mabwiser.__file__)"
